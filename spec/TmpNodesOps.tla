---------------------------- MODULE TmpNodesOps -----------------------------
(***************************************************************************)
(* TmpNodes / TmpNodesReader (src/parallel.rs): the per-thread write-back  *)
(* buffer of a build.  A thread never writes to LMDB; it logs the nodes it *)
(* wants to (re)write (`put`), the node ids it wants gone (`remove`) and   *)
(* at most a few renamings (`remap`).  After the parallel section the main *)
(* thread applies every buffer to the database: first `to_delete`, then    *)
(* `to_insert` in log order.                                               *)
(*                                                                         *)
(* A buffer is a record  [log : Seq(<<id, data>>), del : SUBSET Ids,       *)
(* map : partial function Ids -> Ids].  Everything here is a FUNCTION of   *)
(* values so that the same definitions serve the model (TmpNodes.tla) and  *)
(* the validation of operation sequences executed on the real type         *)
(* (TraceTmp.tla).                                                         *)
(***************************************************************************)
EXTENDS Naturals, Sequences, FiniteSets

Empty == [log |-> <<>>, del |-> {}, map |-> <<>>]      \* <<>> is the function with empty domain

Put(b, id, d)   == [b EXCEPT !.log = Append(@, <<id, d>>)]
Remove(b, id)   == [b EXCEPT !.del = @ \cup {id}]
\* remap(current, new): ignored when equal, later calls for the same `current` overwrite
Remap(b, a, n)  == IF a = n THEN b
                   ELSE [b EXCEPT !.map = [k \in DOMAIN @ \cup {a} |-> IF k = a THEN n ELSE @[k]]]

Renamed(b, id) == IF id \in DOMAIN b.map THEN b.map[id] ELSE id

\* TmpNodesReader::to_delete: the removed ids, ascending (as a set here; order is irrelevant to LMDB)
ToDelete(b) == b.del
\* TmpNodesReader::to_insert: the log without the entries whose ORIGINAL id was removed, renamed
\* (`filter` = FALSE is the variant that forgets the filter: sensitivity runs of TmpNodes.tla only)
ToInsertF(b, filter) ==
  LET kept == SelectSeq(b.log, LAMBDA e : ~filter \/ e[1] \notin b.del)
  IN [i \in 1 .. Len(kept) |-> <<Renamed(b, kept[i][1]), kept[i][2]>>]
ToInsert(b) == ToInsertF(b, TRUE)

\* the write-back loop of the writer: deletions first, then insertions in log order (last one wins)
RECURSIVE PutAll(_, _)
PutAll(db, ins) ==
  IF ins = <<>> THEN db
  ELSE LET e == Head(ins)
           db1 == [k \in DOMAIN db \cup {e[1]} |-> IF k = e[1] THEN e[2] ELSE db[k]]
       IN PutAll(db1, Tail(ins))

WriteBackF(db, b, filter) ==
  LET db0 == [k \in DOMAIN db \ ToDelete(b) |-> db[k]]
  IN PutAll(db0, ToInsertF(b, filter))
WriteBack(db, b) == WriteBackF(db, b, TRUE)

-----------------------------------------------------------------------------
(* What the calling algorithm MEANS: its operations executed one by one on  *)
(* the database, in program order; a renaming moves the node written under  *)
(* the old name to the new name at the end.                                 *)
Ops == {"put", "remove", "remap"}

RECURSIVE Seql(_, _)
Seql(db, ops) ==
  IF ops = <<>> THEN db
  ELSE LET o == Head(ops)
           db1 == CASE o.op = "put"    -> [k \in DOMAIN db \cup {o.id} |-> IF k = o.id THEN o.d ELSE db[k]]
                    [] o.op = "remove" -> [k \in DOMAIN db \ {o.id} |-> db[k]]
                    [] OTHER           -> db
       IN Seql(db1, Tail(ops))

RECURSIVE Buffer(_, _)
Buffer(b, ops) ==
  IF ops = <<>> THEN b
  ELSE LET o == Head(ops)
       IN Buffer(CASE o.op = "put"    -> Put(b, o.id, o.d)
                   [] o.op = "remove" -> Remove(b, o.id)
                   [] OTHER           -> Remap(b, o.id, o.to), Tail(ops))

\* the two debug assertions of the type, as predicates on an operation sequence
NoPutAfterRemove(ops) == \A i, j \in 1 .. Len(ops) : i < j /\ ops[i].op = "remove" /\ ops[j].op = "put" => ops[i].id # ops[j].id
NoDoubleRemove(ops)   == \A i, j \in 1 .. Len(ops) : i < j /\ ops[i].op = "remove" /\ ops[j].op = "remove" => ops[i].id # ops[j].id
NoRemap(ops)          == \A i \in 1 .. Len(ops) : ops[i].op # "remap"
=============================================================================
