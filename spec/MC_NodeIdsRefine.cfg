SPECIFICATION RSpec
CONSTANTS
  Threads = {1, 2}
  MaxReq = 3
  IdSpace = {0, 1, 2, 3, 4, 5}
  Atomic = TRUE
  UsedC = {1, 4}
PROPERTIES
  Refines
CHECK_DEADLOCK FALSE
