SPECIFICATION Spec
CONSTANTS
  Indexes = {0, 1, 255, 256, 65534, 65535}
  Ids <- BoundaryIds
CHECK_DEADLOCK FALSE
