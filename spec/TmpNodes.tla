------------------------------ MODULE TmpNodes ------------------------------
(***************************************************************************)
(* Model of the write-back buffer: every sequence of put / remove / remap  *)
(* of bounded length over a small id space, on every initial database.     *)
(*                                                                         *)
(* Theorems checked by TLC:                                                *)
(*  BatchEqualsSequential  under the discipline the type asserts in debug  *)
(*      builds (no put of an id after its removal) and without renamings,  *)
(*      deferring all writes to the end gives exactly the database the     *)
(*      operations would have produced one by one;                         *)
(*  RemovedStayRemoved     an id that was removed is absent afterwards,    *)
(*      whatever else happened (unless a renaming targets it);             *)
(*  UntouchedUnchanged     ids never mentioned keep their node;            *)
(*  RenameMoves            with one renaming a -> n at the end (the only   *)
(*      use in the writer: the root of a freshly built sub-tree takes the  *)
(*      id of the descendants node it replaces) the node put under `a`     *)
(*      ends up under `n` and `a` is not written.                          *)
(***************************************************************************)
EXTENDS TmpNodesOps, TLC

CONSTANTS Ids, Data, MaxOps, FilterDeleted

VARIABLES db0, ops
vars == <<db0, ops>>

OpSet == [op : {"put"}, id : Ids, d : Data] \cup [op : {"remove"}, id : Ids] \cup [op : {"remap"}, id : Ids, to : Ids]

Init == /\ db0 \in UNION {[S -> Data] : S \in SUBSET Ids}
        /\ ops = <<>>
Next == /\ Len(ops) < MaxOps
        /\ \E o \in OpSet : ops' = Append(ops, o)
        /\ UNCHANGED db0
Spec == Init /\ [][Next]_vars

Final == WriteBackF(db0, Buffer(Empty, ops), FilterDeleted)
Mentioned == {ops[i].id : i \in 1 .. Len(ops)} \cup {ops[i].to : i \in {j \in 1 .. Len(ops) : ops[j].op = "remap"}}

BatchEqualsSequential ==
  NoPutAfterRemove(ops) /\ NoRemap(ops) => Final = Seql(db0, ops)

RemovedStayRemoved ==
  \A i \in 1 .. Len(ops) : ops[i].op = "remove" /\ NoRemap(ops) => ops[i].id \notin DOMAIN Final

UntouchedUnchanged ==
  \A k \in Ids \ Mentioned : (k \in DOMAIN db0 <=> k \in DOMAIN Final) /\ (k \in DOMAIN db0 => Final[k] = db0[k])

RenameMoves ==
  LET n == Len(ops) IN
  n >= 1 /\ ops[n].op = "remap" /\ ops[n].id # ops[n].to /\ NoRemap(SubSeq(ops, 1, n - 1)) /\ NoPutAfterRemove(ops)
  /\ (\A i \in 1 .. n - 1 : ops[i].id # ops[n].to)                       \* nothing else touches the target name
  => LET a == ops[n].id
         t == ops[n].to
         seq == Seql(db0, SubSeq(ops, 1, n - 1))
         wrote == \E i \in 1 .. n - 1 : ops[i].op = "put" /\ ops[i].id = a
     IN IF wrote /\ a \in DOMAIN seq
        THEN /\ t \in DOMAIN Final /\ Final[t] = seq[a]
             /\ (a \in DOMAIN Final => a \in DOMAIN db0 /\ Final[a] = db0[a])      \* the old name is not written
        ELSE \A k \in Ids \ {a} : (k \in DOMAIN seq <=> k \in DOMAIN Final) /\ (k \in DOMAIN seq => Final[k] = seq[k])
=============================================================================
