------------------------------ MODULE NumericMC ------------------------------
(* TLC evaluates the model-level theorems of Numeric.tla as assumptions. *)
EXTENDS Numeric

Patterns(d) == [1 .. d -> {0, 1}]
\* C12: exhaustive over every sign pattern of every dimension 1..10, boundary dimensions on templates
ASSUME \A d \in 1 .. 10 : \A s \in Patterns(d) : PackRoundTrip(s) /\ PaddingZero(s)
ASSUME \A d \in {63, 64, 65, 127, 128, 129, 300} :
         \A s \in {[k \in 1 .. d |-> 1], [k \in 1 .. d |-> 0], [k \in 1 .. d |-> k % 2], [k \in 1 .. d |-> IF k = d THEN 1 ELSE 0],
                   [k \in 1 .. d |-> IF k % 64 \in {0, 1} THEN 1 ELSE 0]} : PackRoundTrip(s) /\ PaddingZero(s)
\* the distances are functions of h only, zero iff h = 0, strictly increasing in h (all pairs for d <= 6)
ASSUME \A d \in 1 .. 6 : \A s, t \in Patterns(d) :
         /\ Hamming(s, t) = Hamming(t, s)
         /\ (Hamming(s, t) = 0) <=> (s = t)
ASSUME \A d \in 1 .. 300 : \A h \in 0 .. d :
         /\ EucOk((4 * h * 1000000) \div d, h, d) /\ ManOk((2 * h * 1000000) \div d, h, d) /\ CosOk((h * 1000000) \div Padded(d), h, d)
         /\ (h < d => 4 * h * Padded(d) < 4 * (h + 1) * Padded(d))
\* C11: every index is consumed exactly once on every path, for every length 1..300
ASSUME \A n \in 1 .. 300 : \A p \in {"avx", "sse", "scalar"} : EachIndexOnce(n, p)
ASSUME \A n \in 1 .. 300 : PathAvxHost(n) \in {"avx", "sse", "scalar"} /\ (PathAvxHost(n) = "avx" <=> n >= 32)

VARIABLE dummy
Spec == dummy = 0 /\ [][UNCHANGED dummy]_dummy
=============================================================================
