------------------------------ MODULE TraceMain ------------------------------
(***************************************************************************)
(* Trace validation of recorded executions of the real arroy against the   *)
(* operators of Store.tla / Forest.tla / Search.tla (the ones Arroy.tla is *)
(* model-checked with).  The trace (ndjson, DESIGN.md Appendix B) holds,   *)
(* per public call, the arguments, the result class, the abstract state of *)
(* the touched index decoded from the raw LMDB bytes by the harness's own   *)
(* decoder, and the API-level observations.                                *)
(*                                                                         *)
(* The spec is a MONITOR: it never blocks on a bad event.  Each action      *)
(* binds the logged post-state, evaluates the spec's relation between the   *)
(* pre-state and the logged post-state, and prints one line                 *)
(*   "VIOL|history|op|line|property|conjunct|event"                         *)
(* per failed PROPERTY conjunct (and "DRIFT" for conformance conjuncts).    *)
(* Acceptance (POSTCONDITION): every line of the trace was consumed.        *)
(***************************************************************************)
EXTENDS Obs, KeyOps, Json, IOUtils

Rec == ndJsonDeserialize(IOEnv.TRACE)

VARIABLES
  l,          \* next line of the trace
  cur,        \* [1..k -> index value] as the open transaction sees the database
  committed,  \* as a new reader sees it
  caps,       \* ghost: capacities used since each forest was last wiped
  ccaps,
  mapfull     \* this history runs under a deliberately small LMDB map: MapFull is an allowed fault

tvars == <<l, cur, committed, caps, ccaps, mapfull>>

\* the margin side of item `x` under a logged plane: ms is aligned with the ascending stored ids
\* (pos: the position of every stored id in that ascending sequence, computed once per event)
PosOf(ids) == [x \in {ids[k] : k \in DOMAIN ids} |-> CHOOSE k \in DOMAIN ids : ids[k] = x]
SideLogged(pos, plane, x) ==
  IF plane.zero \/ x \notin DOMAIN pos THEN "U"
  ELSE LET k == pos[x]
           v == IF k \in DOMAIN plane.ms THEN plane.ms[k] ELSE 0
       IN IF v = 1 THEN "L" ELSE IF v = 2 THEN "R" ELSE IF v = 3 THEN "N" ELSE "U"

-----------------------------------------------------------------------------
(* reporting *)
Report(kind, e, bad) ==
  \A v \in bad : PrintT(kind \o "|" \o ToString(e.h) \o "|" \o ToString(e.k) \o "|" \o ToString(l)
                         \o "|" \o v[1] \o "|" \o v[2] \o "|" \o e.ev)

IsEv(name) == l <= Len(Rec) /\ Rec[l].ev = name

\* arroy's own validator (Reader::assert_validity) against the specification's: it looks at everything
\* ForestDefects does except the item list of the metadata ("skipped": the harness found a cycle, on
\* which the validator would not terminate, or the caller had no decoded index at hand)
ValidatorDrift(o, ix) ==
  IF ~o.ok \/ ~o.rd.has \/ ix.meta = NoMeta \/ o.rd.valid = "skipped" THEN {}
  ELSE LET d == ForestDefects(ix.nodes, ix.meta.roots, Live(ix), ix.meta.items) \ {"meta_items"}
       IN IF (d = {}) # (o.rd.valid = "Ok") THEN {<<"C01", "assert_validity_disagrees_with_the_specification">>} ELSE {}

ReaderDrift(o, ix) ==
  IF ~o.ok \/ ~o.rd.has \/ ix.meta = NoMeta THEN {}
  ELSE IF ForestDefects(ix.nodes, ix.meta.roots, Live(ix), ix.meta.items) # {} THEN ValidatorDrift(o, ix)
  ELSE ValidatorDrift(o, ix) \cup
       (IF ~o.rd.stats_ok THEN {<<"C15", "reader_stats_failed_on_a_valid_forest">>}
        ELSE (IF o.rd.stats # [k \in DOMAIN ix.meta.roots |-> TreeStats(ix.nodes, TreeRef(ix.meta.roots[k]), Fuel(ix.nodes))]
              THEN {<<"C15", "reader_stats_differ_from_the_forest">>} ELSE {})
          \cup (IF o.rd.stats_leaf # Cardinality(Live(ix)) THEN {<<"C15", "reader_stats_leaf_count">>} ELSE {}))
       \cup (IF o.rd.n_nodes # o.rd.total_keys THEN {<<"C02", "n_nodes_is_not_the_number_of_keys">>} ELSE {})

\* what every event on index i must satisfy whatever the operation
CommonDefects(e) ==
       (IF ~e.same THEN {<<"C07", "other_index_changed">>} ELSE {})
  \cup (IF e.foreign # 0 THEN {<<"C07", "keys_outside_the_indexes">>} ELSE {})
  \cup (IF e.st.problems # <<>> THEN {<<"C16", "layout_problem">>} ELSE {})
  \cup (IF e.st.leafw_bad # 0 THEN {<<"C16", "leaf_width">>} ELSE {})
  \cup (IF e.st.hdr_bad # 0 THEN {<<"C16", "leaf_header_inconsistent_with_its_vector">>} ELSE {})

Bind(e, post) ==
  IF e.same THEN cur' = [cur EXCEPT ![e.i] = post]
  ELSE cur' = [j \in DOMAIN cur |-> JIndex(e.all[j])]

Unchanged(e, pre, post, prop) ==
  IF post # pre THEN {<<prop, "rejected_call_changed_database">>} ELSE {}

-----------------------------------------------------------------------------
Reset ==
  /\ IsEv("Reset")
  /\ LET e == Rec[l] IN
     /\ cur' = [j \in DOMAIN e.idxs |-> EmptyIndex(e.idxs[j].metric, e.idxs[j].dim)]
     /\ committed' = cur'
     /\ caps' = [j \in DOMAIN e.idxs |-> {}]
     /\ ccaps' = caps'
     /\ mapfull' = e.mapfull
  /\ l' = l + 1

\* out of space is an environment fault (C10): the transaction is lost, nothing is claimed about
\* its contents until the caller aborts; the error must be the MapFull class, never a panic.
Faulted(e) == mapfull /\ e.res.c = "MapFull"
\* the call failed with a storage error that no fault of the history explains: the executor made no
\* observation (the transaction is unusable) and the rest of the transaction is skipped
Dead(e) == "dead" \in DOMAIN e
Verdict(e, prop, bad) ==
  IF Faulted(e) THEN {} ELSE IF Dead(e) THEN {<<prop, "call_failed_with_" \o e.res.c>>} ELSE bad

AddLike(name) ==
  /\ IsEv(name)
  /\ LET e == Rec[l]
         pre == cur[e.i]
         post == JIndex(e.st)
         accept == e.len = pre.dim /\ (name = "Add" \/ e.above_all)
         bad ==
           CommonDefects(e) \cup ObsDefects(e.obs, post) \cup
           StaleDefects(e.obs, IF accept /\ e.tok # 0 THEN AddOp(pre, e.id, e.tok) ELSE pre) \cup
           (IF e.len # pre.dim
            THEN (IF e.res.c # "DimErr" THEN {<<"C19", "wrong_length_not_rejected">>}
                  ELSE IF e.res.exp # pre.dim \/ e.res.got # e.len THEN {<<"C19", "dimension_error_numbers">>} ELSE {})
                 \cup Unchanged(e, pre, post, "C19")
            ELSE IF ~accept
            THEN (IF e.res.c # "AppendErr" THEN {<<"C19", "append_below_max_key_not_rejected">>} ELSE {})
                 \cup Unchanged(e, pre, post, "C19")
            ELSE (IF e.res.c # "Ok" THEN {<<IF name = "Add" THEN "C05" ELSE "C19", "valid_write_rejected">>} ELSE {})
                 \cup (IF post # AddOp(pre, e.id, e.tok) THEN {<<"C05", "write_effect">>} ELSE {})
                 \cup (IF post.updated # pre.updated \cup {e.id} THEN {<<"C06", "write_not_marked">>} ELSE {}))
     IN /\ Report("VIOL", e, Verdict(e, "C05", bad))
        /\ Bind(e, post)
  /\ l' = l + 1
  /\ UNCHANGED <<committed, caps, ccaps, mapfull>>

Del ==
  /\ IsEv("Del")
  /\ LET e == Rec[l]
         pre == cur[e.i]
         post == JIndex(e.st)
         bad ==
           CommonDefects(e) \cup ObsDefects(e.obs, post) \cup StaleDefects(e.obs, DelOp(pre, e.id)) \cup
           (IF e.res.c # "Ok" THEN {<<"C05", "delete_failed">>}
            ELSE (IF e.res.ret # DelRet(pre, e.id) THEN {<<"C05", "delete_return_value">>} ELSE {})
              \cup (IF post # DelOp(pre, e.id)
                    THEN {IF DelRet(pre, e.id) THEN <<"C05", "delete_effect">> ELSE <<"C19", "delete_of_absent_item_changed_database">>}
                    ELSE {})
              \cup (IF DelRet(pre, e.id) /\ e.id \notin post.updated THEN {<<"C06", "delete_not_marked">>} ELSE {}))
     IN /\ Report("VIOL", e, Verdict(e, "C05", bad))
        /\ Bind(e, post)
  /\ l' = l + 1
  /\ UNCHANGED <<committed, caps, ccaps, mapfull>>

RECURSIVE FoldAdd(_, _, _)
FoldAdd(ix, items, k) == IF k > Len(items) THEN ix ELSE FoldAdd(AddOp(ix, items[k][1], items[k][2]), items, k + 1)
RECURSIVE FoldDel(_, _, _)
FoldDel(ix, dels, k) == IF k > Len(dels) THEN ix ELSE FoldDel(DelOp(ix, dels[k][1]), dels, k + 1)
RECURSIVE DelRetsOk(_, _, _)
DelRetsOk(ix, dels, k) ==
  IF k > Len(dels) THEN TRUE
  ELSE dels[k][2] = DelRet(ix, dels[k][1]) /\ DelRetsOk(DelOp(ix, dels[k][1]), dels, k + 1)

AddMany ==
  /\ IsEv("AddMany")
  /\ LET e == Rec[l]
         pre == cur[e.i]
         post == JIndex(e.st)
         bad == CommonDefects(e) \cup ObsDefects(e.obs, post) \cup
                (IF e.res.c # "Ok" THEN {<<"C05", "valid_write_rejected">>} ELSE {}) \cup
                (IF post # FoldAdd(pre, e.items, 1) THEN {<<"C05", "write_effect">>} ELSE {})
     IN /\ Report("VIOL", e, Verdict(e, "C05", bad))
        /\ Bind(e, post)
  /\ l' = l + 1
  /\ UNCHANGED <<committed, caps, ccaps, mapfull>>

DelMany ==
  /\ IsEv("DelMany")
  /\ LET e == Rec[l]
         pre == cur[e.i]
         post == JIndex(e.st)
         bad == CommonDefects(e) \cup ObsDefects(e.obs, post) \cup
                (IF e.res.c # "Ok" THEN {<<"C05", "delete_failed">>} ELSE {}) \cup
                (IF ~DelRetsOk(pre, e.dels, 1) THEN {<<"C05", "delete_return_value">>} ELSE {}) \cup
                (IF post # FoldDel(pre, e.dels, 1) THEN {<<"C05", "delete_effect">>} ELSE {})
     IN /\ Report("VIOL", e, Verdict(e, "C05", bad))
        /\ Bind(e, post)
  /\ l' = l + 1
  /\ UNCHANGED <<committed, caps, ccaps, mapfull>>

Clear ==
  /\ IsEv("Clear")
  /\ LET e == Rec[l]
         pre == cur[e.i]
         post == JIndex(e.st)
         bad == CommonDefects(e) \cup ObsDefects(e.obs, post) \cup StaleDefects(e.obs, ClearOp(pre)) \cup
                (IF e.res.c # "Ok" THEN {<<"C05", "clear_failed">>} ELSE {}) \cup
                (IF post # ClearOp(pre) THEN {<<"C05", "clear_effect">>} ELSE {})
     IN /\ Report("VIOL", e, Verdict(e, "C05", bad))
        /\ Bind(e, post)
        /\ caps' = [caps EXCEPT ![e.i] = {}]
  /\ l' = l + 1
  /\ UNCHANGED <<committed, ccaps, mapfull>>

ChangeMetric ==
  /\ IsEv("ChangeMetric")
  /\ LET e == Rec[l]
         pre == cur[e.i]
         post == JIndex(e.st)
         rq == JFun(e.requant)
         bad == CommonDefects(e) \cup ObsDefects(e.obs, post) \cup
                (IF e.res.c # "Ok" THEN {<<"C18", "change_failed">>} ELSE {}) \cup
                (IF Live(post) # Live(pre) THEN {<<"C18", "item_set_changed">>} ELSE {}) \cup
                (IF e.st.leafw_bad # 0 THEN {<<"C18", "leaf_width_of_new_metric">>} ELSE {}) \cup
                (IF e.st.hdr_bad # 0 THEN {<<"C18", "leaf_header_of_new_metric">>} ELSE {}) \cup
                (IF e.to # pre.metric /\ (post.nodes # EmptyFn \/ post.meta # NoMeta) THEN {<<"C18", "old_forest_left">>} ELSE {}) \cup
                (IF e.to # pre.metric /\ ~NeedBuildRes(post) THEN {<<"C18", "no_build_demanded">>} ELSE {}) \cup
                (IF (\A x \in Live(pre) : pre.store[x] \in DOMAIN rq) /\ post # ChangeMetricOp(pre, e.to, rq)
                 THEN {<<"C18", IF e.to = pre.metric THEN "same_metric_changed_something" ELSE "vectors_not_requantised">>} ELSE {})
     IN /\ Report("VIOL", e, Verdict(e, "C18", bad))
        /\ Bind(e, post)
        /\ caps' = IF e.to = pre.metric THEN caps ELSE [caps EXCEPT ![e.i] = {}]
  /\ l' = l + 1
  /\ UNCHANGED <<committed, ccaps, mapfull>>

\* Conformance at phase granularity (hook H2: the tree nodes and the roots after each phase of a full build).
\* The two deterministic phases must produce exactly what Forest.tla computes; the others must satisfy
\* the inter-phase invariants of Arroy.tla.  Failures are DRIFT (they localise a defect, they are not a verdict).
\* (the edit functions of Forest.tla are partial: they are only applied to forests without dangling references)
Closed(nodes, roots) ==
  \A k \in DOMAIN roots : roots[k] \in DOMAIN nodes /\
     LET w == Walk(nodes, TreeRef(roots[k]), Fuel(nodes)) IN w.dang = {} /\ ~w.cyc
PhaseDrift(e, pre, cap) ==
  IF ~("phases" \in DOMAIN e) \/ Len(e.phases) # 5 THEN {}
  ELSE IF ~Closed(pre.nodes, pre.meta.roots) \/ ~Closed(JNodes(e.phases[1].nodes), e.phases[1].roots)
  THEN {<<"C01", "phase_conformance_not_evaluated_on_a_dangling_forest">>}
  ELSE
    LET n == Cardinality(Live(pre))
        roots0 == pre.meta.roots
        target == TargetTrees(e.args.n_trees, pre.dim, n, Len(roots0), TRUE)
        P(k) == [nodes |-> JNodes(e.phases[k].nodes), roots |-> e.phases[k].roots]
        x1 == AfterDeleteExtra(pre.nodes, roots0, target)
        x2 == AfterDeleteItems(P(1).nodes, P(1).roots, pre.updated, cap)
        covers(ph, S) == \A k \in DOMAIN ph.roots :
                           LET w == Walk(ph.nodes, TreeRef(ph.roots[k]), Fuel(ph.nodes))
                           IN SeqToSet(w.items) = S /\ NoDup(w.items) /\ w.dang = {} /\ ~w.cyc
    IN  (IF P(1).nodes # x1.nodes \/ P(1).roots # x1.roots THEN {<<"C15", "phase_delete_extra_trees">>} ELSE {})
   \cup (IF P(2).nodes # x2.nodes \/ P(2).roots # x2.roots THEN {<<"C01", "phase_delete_items">>} ELSE {})
   \cup (IF ~covers(P(2), Live(pre) \ pre.updated) THEN {<<"C01", "phase_delete_items_coverage">>} ELSE {})
   \cup (IF ~covers(P(3), Live(pre)) THEN {<<"C01", "phase_insert_coverage">>} ELSE {})
   \cup (IF P(2).roots # P(3).roots \/ \E k \in DOMAIN P(2).roots :
               LET d == InsDiff(P(2).nodes, TreeRef(P(2).roots[k]), P(3).nodes, TreeRef(P(3).roots[k]), Fuel(P(3).nodes))
               IN ~d.ok \/ d.added # (Live(pre) \cap pre.updated)
          THEN {<<"C01", "phase_insert_relation">>} ELSE {})
   \cup (IF \E m \in (DOMAIN P(3).nodes \ DOMAIN P(2).nodes) : ~IsBucket(P(3).nodes[m])
          THEN {<<"C01", "phase_insert_created_something_else_than_buckets">>} ELSE {})
   \cup (IF Len(P(4).roots) # target \/ ~covers(P(4), Live(pre)) THEN {<<"C15", "phase_missing_trees">>} ELSE {})
   \cup (IF P(5).nodes # JNodes(e.st.nodes) THEN {<<"C01", "phase_split_is_not_final">>} ELSE {})

\* the progress callback announces the phases in the order of the pipeline of Arroy.tla
\* (conformance: MainStep is documented as unspecified, so a different order is drift, not a violation)
FullSteps == <<"PreProcessingTheItems", "RetrievingTheItemsIds", "RetrieveTheUpdatedItems", "RetrievingTheUsedTreeNodes",
               "DeletingExtraTrees", "RemoveItemsFromExistingTrees", "InsertItemsInCurrentTrees",
               "IncrementalIndexLargeDescendants", "WriteTheMetadata">>
ShortSteps == <<"PreProcessingTheItems", "RetrievingTheItemsIds", "RetrieveTheUpdatedItems", "WritingTheDescendantsAndMetadata">>
StepDrift(e, n, cap) ==
  IF ~("steps" \in DOMAIN e) THEN {}
  ELSE LET names == [k \in DOMAIN e.steps |-> e.steps[k][1]]
           want == IF n <= cap THEN ShortSteps ELSE FullSteps
       IN IF e.res.c = "Ok" THEN (IF names # want THEN {<<"C10", "progress_steps_of_a_successful_build">>} ELSE {})
          ELSE IF Len(names) <= Len(want) /\ names = SubSeq(want, 1, Len(names)) THEN {} ELSE {<<"C10", "progress_steps_of_a_failed_build">>}

Build ==
  /\ IsEv("Build")
  /\ LET e == Rec[l]
         pre == cur[e.i]
         post == JIndex(e.st)
         cap == IF e.args.split_after = 0 THEN pre.dim ELSE e.args.split_after
         n == Cardinality(Live(pre))
         caps1 == IF n <= cap THEN {cap} ELSE caps[e.i] \cup {cap}
         ids == SortedSeq(Live(post))
         pos == PosOf(ids)
         nodesMs == JNodesMs(e.st.nodes)
         faulted == e.args.cancel_at >= 0
         bad ==
           CommonDefects(e) \cup
           (IF e.fd_delta # 0 THEN {<<"C10", "file_descriptor_left_open">>} ELSE {}) \cup
           (IF e.tmp_delta # 0 THEN {<<"C10", "temporary_file_left_behind">>} ELSE {}) \cup
           (IF e.res.c = "Panic" /\ (faulted \/ ~e.tmp_usable \/ mapfull) THEN {<<"C10", "panic_under_fault">>} ELSE {}) \cup
           \* the faulty attempt was rolled back inside the harness (nested transaction) and THE SAME builder value built
           \* again with the fault withdrawn: this event is that second attempt
           (IF "retry_first" \in DOMAIN e
            THEN (IF e.retry_first \notin {"Cancelled", "Ok"} THEN {<<"C10", "cancelled_build_returned_" \o e.retry_first>>} ELSE {})
                 \cup (IF e.res.c # "Ok" THEN {<<"C10", "retry_with_the_same_builder_returned_" \o e.res.c>>} ELSE {})
            ELSE {}) \cup
           (IF ~e.tmp_usable /\ n > cap /\ e.res.c # "Io" /\ ~(faulted /\ e.res.c = "Cancelled")
            THEN {<<"C10", "unusable_temp_dir_gave_" \o e.res.c>>} ELSE {}) \cup
           (IF e.res.c = "Io" /\ ~e.tmp_usable THEN {}
            ELSE IF e.res.c = "Ok"
            THEN BuildOkDefects(pre, post, e.args.n_trees, cap, caps1 = {cap})
                 \cup ObsDefects(e.obs, post)
                 \* C06, literally: immediately after a successful build the reader opens and no build is demanded
                 \cup (IF e.obs.ok /\ e.obs.open # "Ok" THEN {<<"C06", "reader_gives_" \o e.obs.open \o "_right_after_a_successful_build">>} ELSE {})
                 \cup (IF e.obs.ok /\ e.obs.need_build THEN {<<"C06", "build_demanded_right_after_a_successful_build">>} ELSE {})
                 \cup (IF e.sides /\ post.meta # NoMeta /\ ~RoutedToSelf(nodesMs, post.meta.roots, LAMBDA p, x : SideLogged(pos, p, x))
                       THEN {<<"C04", "item_on_the_wrong_side_of_a_decided_plane">>} ELSE {})
                 \cup (IF faulted /\ e.polls > e.args.cancel_at + 1 THEN {<<"C10", "success_after_cancellation_was_seen_twice">>} ELSE {})
            ELSE IF faulted /\ e.res.c = "Cancelled" THEN {}
            ELSE  {<<"C14", "build_failed_" \o e.res.c>>, <<"C01", "build_failed_" \o e.res.c>>}
             \cup (IF faulted THEN {<<"C10", "cancelled_build_returned_" \o e.res.c>>} ELSE {})
             \cup (IF e.args.threads > 1 THEN {<<"C13", "build_failed_" \o e.res.c>>} ELSE {}))
     IN /\ Report("VIOL", e, IF Faulted(e) THEN {} ELSE bad)
        /\ Report("DRIFT", e, (IF e.res.c = "Ok" /\ n > cap THEN PhaseDrift(e, pre, cap) ELSE {}) \cup StepDrift(e, n, cap)
                               \cup (IF e.res.c = "Ok" THEN ReaderDrift(e.obs, post) ELSE {})
                               \* the version record is written by the single-bucket shortcut only (as coded; no property speaks of it)
                               \cup (IF e.res.c = "Ok" /\ n > cap /\ post.version # pre.version THEN {<<"C16", "version_record_written_by_a_full_build">>} ELSE {})
                               \cup (IF e.res.c = "Ok" /\ n <= cap /\ (post.version = NoVersion \/ Len(post.version) # 3) THEN {<<"C16", "version_record_missing_after_the_shortcut">>} ELSE {}))
        /\ Bind(e, post)
        /\ caps' = [caps EXCEPT ![e.i] = caps1]
  /\ l' = l + 1
  /\ UNCHANGED <<committed, ccaps, mapfull>>

SearchEv ==
  /\ IsEv("Search")
  /\ LET e == Rec[l]
         pre == cur[e.i]
         post == JIndex(e.st)
         ids == SortedSeq(Live(post))
         pos == PosOf(ids)
         nodesMs == JNodesMs(e.st.nodes)
         bad == CommonDefects(e) \cup Unchanged(e, pre, post, "C05")
                \cup SearchDefects(e.q, post, nodesMs, LAMBDA p, x : SideLogged(pos, p, x))
     IN /\ Report("VIOL", e, bad)
        \* (the traversal is re-run by TLC for every recorded query: small histories only, like the phase conformance)
        /\ Report("DRIFT", e, IF post.meta = NoMeta \/ ~e.q.sides \/ Cardinality(DOMAIN post.nodes) > 80 THEN {}
                               ELSE SearchDrift(e.q, post.meta.roots, Live(post), post.nodes))
        /\ Bind(e, post)
  /\ l' = l + 1
  /\ UNCHANGED <<committed, caps, ccaps, mapfull>>

Commit ==
  /\ IsEv("Commit")
  /\ LET e == Rec[l]
         all == [j \in DOMAIN cur |-> JIndex(e.all[j])]
         bad == (IF e.res.c # "Ok" THEN {<<"C08", "commit_failed">>} ELSE {}) \cup
                (IF all # cur THEN {<<"C08", "commit_changed_the_data">>} ELSE {}) \cup
                (IF e.foreign # 0 THEN {<<"C07", "keys_outside_the_indexes">>} ELSE {}) \cup
                UNION {ObsDefects(e.obs_all[j], all[j]) : j \in DOMAIN e.obs_all} \cup
                \* what a fresh read transaction shows right after the commit is the committed version, nothing else (C08)
                {<<"C08", "reader_after_commit_" \o d[2]>> : d \in UNION {ObsDefects(e.obs_all[j], all[j]) : j \in DOMAIN e.obs_all}}
     IN /\ Report("VIOL", e, bad)
        /\ cur' = all
        /\ committed' = all
        /\ ccaps' = caps
  /\ l' = l + 1
  /\ UNCHANGED <<caps, mapfull>>

Abort ==
  /\ IsEv("Abort")
  /\ LET e == Rec[l]
         all == [j \in DOMAIN cur |-> JIndex(e.all[j])]
         bad == (IF all # committed THEN {<<"C08", "abort_left_a_trace">>, <<"C10", "abort_left_a_trace">>} ELSE {}) \cup
                (IF e.foreign # 0 THEN {<<"C07", "keys_outside_the_indexes">>} ELSE {}) \cup
                UNION {ObsDefects(e.obs_all[j], all[j]) : j \in DOMAIN e.obs_all} \cup
                {<<"C08", "reader_after_abort_" \o d[2]>> : d \in UNION {ObsDefects(e.obs_all[j], all[j]) : j \in DOMAIN e.obs_all}}
     IN /\ Report("VIOL", e, bad)
        /\ cur' = all
        /\ caps' = ccaps
  /\ l' = l + 1
  /\ UNCHANGED <<committed, ccaps, mapfull>>

\* C16: a database written by the reference version (golden key/value fixture) was put byte for byte
\* into a fresh environment: the API must show exactly what the reference decoder finds in those bytes,
\* the recorded items and the recorded query answers; the keys re-encode to the same bytes and are sorted.
Load ==
  /\ IsEv("Load")
  /\ LET e == Rec[l]
         all == [j \in DOMAIN e.all |-> JIndex(e.all[j])]
         keyBad == \E k \in DOMAIN e.keys :
                     LET x == e.keys[k] IN x.index < 0 \/ Enc(x.index, x.kind, <<x.id_hi, x.id_lo>>) # x.bytes
         orderBad == \E k \in DOMAIN e.keys : k + 1 \in DOMAIN e.keys /\ ~LexLess(e.keys[k].bytes, e.keys[k + 1].bytes)
         bad == (IF \E j \in DOMAIN e.all : e.all[j].problems # <<>> \/ e.all[j].leafw_bad # 0 THEN {<<"C16", "fixture_does_not_decode">>} ELSE {})
                \cup (IF keyBad THEN {<<"C16", "key_bytes_differ_from_the_layout">>} ELSE {})
                \cup (IF orderBad THEN {<<"C16", "keys_not_in_index_kind_id_order">>} ELSE {})
                \cup (IF ~e.items_ok THEN {<<"C16", "recorded_items_not_returned">>} ELSE {})
                \cup (IF ~e.answers_ok THEN {<<"C16", "recorded_query_answers_differ">>} ELSE {})
                \cup (IF e.foreign # 0 THEN {<<"C16", "keys_outside_the_indexes">>} ELSE {})
                \cup {<<"C16", "api_" \o d[2]>> : d \in UNION {ObsDefects(e.obs_all[j], all[j]) : j \in DOMAIN e.obs_all}}
                \cup {<<"C16", "forest_" \o d>> : d \in UNION {IF all[j].meta = NoMeta \/ all[j].updated # {} THEN {} ELSE
                          ForestDefects(all[j].nodes, all[j].meta.roots, Live(all[j]), all[j].meta.items) : j \in DOMAIN all}}
                \cup {<<"C16", "search_" \o d[2]>> : d \in UNION {SearchDefects(e.qs[k].q, all[e.qs[k].i], all[e.qs[k].i].nodes,
                                                                              LAMBDA p, x : "U") : k \in DOMAIN e.qs}}
     IN /\ Report("VIOL", [h |-> e.h, k |-> e.k, ev |-> "Load"], bad)
        /\ cur' = all /\ committed' = all
  /\ l' = l + 1
  /\ UNCHANGED <<caps, ccaps, mapfull>>

\* a build that neither returned nor polled the cancellation callback for the watchdog period:
\* the harness wrote the trace up to there and stopped
Hang ==
  /\ IsEv("Hang")
  /\ Report("VIOL", [h |-> Rec[l].h, k |-> Rec[l].k, ev |-> "Hang"],
            {<<"C14", "build_did_not_return">>, <<"C01", "build_did_not_return">>, <<"C20", "build_did_not_return">>,
             <<"C10", "build_did_not_return">>, <<"*", "operation_did_not_return">>})
  /\ l' = l + 1
  /\ UNCHANGED <<cur, committed, caps, ccaps, mapfull>>

\* the process running the code under test was killed by a signal raised from inside it (stack overflow,
\* segmentation fault, abort; code 101 = a panic the driver does not catch) during operation k of this history; the harness ran the other histories again
\* and put this event in place of the history.  "*" = counts for whichever property's driver observed it.
Crash ==
  /\ IsEv("Crash")
  /\ Report("VIOL", [h |-> Rec[l].h, k |-> Rec[l].k, ev |-> "Crash"],
            {<<"*", "process_died_code_" \o ToString(Rec[l].sig) \o "_during_" \o Rec[l].op>>})
  /\ l' = l + 1
  /\ UNCHANGED <<cur, committed, caps, ccaps, mapfull>>

TraceInit ==
  /\ l = 1
  /\ cur = <<>> /\ committed = <<>> /\ caps = <<>> /\ ccaps = <<>> /\ mapfull = FALSE

TraceNext ==
  \/ Reset
  \/ AddLike("Add") \/ AddLike("Append")
  \/ Del \/ AddMany \/ DelMany \/ Clear \/ ChangeMetric \/ Build \/ SearchEv \/ Commit \/ Abort \/ Hang \/ Crash \/ Load

TraceSpec == TraceInit /\ [][TraceNext]_tvars

\* every line consumed: the diameter counts the initial state plus one state per line
TraceAccepted ==
  LET d == TLCGet("stats").diameter IN
  IF d = Len(Rec) + 1 THEN TRUE
  ELSE Print(<<"STUCK", d, IF d <= Len(Rec) THEN Rec[d].ev ELSE "eof">>, FALSE)
=============================================================================
