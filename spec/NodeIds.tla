------------------------------- MODULE NodeIds -------------------------------
(***************************************************************************)
(* The model of ConcurrentNodeIds: every interleaving of the atomic steps  *)
(* of a few requesters, over every set of used ids of a small id space.    *)
(* The step function lives in NodeIdsOps.tla (shared with TraceIds.tla).   *)
(***************************************************************************)
EXTENDS NodeIdsOps

CONSTANTS Threads, MaxReq, IdSpace, Atomic
VARIABLES st, used0

Init ==
  /\ used0 \in SUBSET IdSpace
  /\ \E reqs \in [Threads -> 1 .. MaxReq] : st = InitState(used0, Threads, reqs)

Next ==
  \E t \in Threads : Enabled(st, t) /\ st' = (IF Atomic THEN Step(st, t) ELSE StepNA(st, t)) /\ UNCHANGED used0

Spec == Init /\ [][Next]_<<st, used0>> /\ WF_<<st, used0>>(Next)

Unique == UniqueIn(st, used0)
\* recycled ids are handed out before fresh ones are, per thread-local view: an id below the
\* initial counter is always one of the gaps
OnlyFreeIds == \A x \in Handed(st) : x \notin used0
AllDone == <>(\A t \in Threads : st.pc[t] = "done")
\* the count of used ids is exact once everybody is done
CountExact == (\A t \in Threads : st.pc[t] = "done") => st.cnt = Cardinality(used0) + NbHanded(st)
=============================================================================
