-------------------------------- MODULE Txn ---------------------------------
(***************************************************************************)
(* The transaction layer arroy relies on and must not subvert (C08, C09):  *)
(* one writer, several snapshot readers, commit as an internal             *)
(* linearization point between the call and the return, abort, crash.      *)
(* The database content is abstracted to a version number: the writer's    *)
(* k-th successful commit produces version k; uncommitted work carries a   *)
(* negative marker.  LMDB's MVCC and copy-on-write commit are ASSUMED here  *)
(* (this module is their specification); what is checked against the code  *)
(* is that arroy adds nothing that breaks the observable contract, by      *)
(* validating real multi-threaded runs (TraceTxn.tla) and real kills       *)
(* (TraceCrash.tla) against the bounds this model justifies.                *)
(***************************************************************************)
EXTENDS Naturals, Integers, FiniteSets, Sequences, TLC

CONSTANTS Readers, MaxVersion, WithCrash

VARIABLES
  durable,    \* latest version a new reader sees (and the one that survives a crash)
  wpc,        \* writer: "idle" | "open" | "committing" | "committed"
  wver,       \* version the open transaction will become if it commits
  rpc,        \* reader -> "none" | "calling" | "open" | "returned"
  snap,       \* reader -> version of its snapshot
  \* ghosts: the bounds a trace can observe from call/return stamps
  started,    \* versions whose commit call has started
  finished,   \* versions whose commit has returned
  lo, hi,     \* reader -> bounds taken at begin-call / begin-return
  crashed

vars == <<durable, wpc, wver, rpc, snap, started, finished, lo, hi, crashed>>

MaxS(S) == IF S = {} THEN 0 ELSE CHOOSE x \in S : \A y \in S : y <= x

Init ==
  /\ durable = 0 /\ wpc = "idle" /\ wver = 0
  /\ rpc = [r \in Readers |-> "none"] /\ snap = [r \in Readers |-> 0]
  /\ started = {} /\ finished = {}
  /\ lo = [r \in Readers |-> 0] /\ hi = [r \in Readers |-> 0]
  /\ crashed = FALSE

BeginWrite == ~crashed /\ wpc = "idle" /\ durable < MaxVersion /\ wpc' = "open" /\ wver' = durable + 1
              /\ UNCHANGED <<durable, rpc, snap, started, finished, lo, hi, crashed>>
CommitCall == ~crashed /\ wpc = "open" /\ wpc' = "committing" /\ started' = started \cup {wver}
              /\ UNCHANGED <<durable, wver, rpc, snap, finished, lo, hi, crashed>>
CommitDurable == ~crashed /\ wpc = "committing" /\ wpc' = "committed" /\ durable' = wver
              /\ UNCHANGED <<wver, rpc, snap, started, finished, lo, hi, crashed>>
CommitReturn == ~crashed /\ wpc = "committed" /\ wpc' = "idle" /\ finished' = finished \cup {wver}
              /\ UNCHANGED <<durable, wver, rpc, snap, started, lo, hi, crashed>>
Abort == ~crashed /\ wpc = "open" /\ wpc' = "idle"
              /\ UNCHANGED <<durable, wver, rpc, snap, started, finished, lo, hi, crashed>>

BeginCall(r) == ~crashed /\ rpc[r] = "none" /\ rpc' = [rpc EXCEPT ![r] = "calling"] /\ lo' = [lo EXCEPT ![r] = MaxS(finished)]
              /\ UNCHANGED <<durable, wpc, wver, snap, started, finished, hi, crashed>>
Begin(r) == ~crashed /\ rpc[r] = "calling" /\ rpc' = [rpc EXCEPT ![r] = "open"] /\ snap' = [snap EXCEPT ![r] = durable]
              /\ UNCHANGED <<durable, wpc, wver, started, finished, lo, hi, crashed>>
BeginReturn(r) == ~crashed /\ rpc[r] = "open" /\ rpc' = [rpc EXCEPT ![r] = "returned"] /\ hi' = [hi EXCEPT ![r] = MaxS(started)]
              /\ UNCHANGED <<durable, wpc, wver, snap, started, finished, lo, crashed>>
End(r) == ~crashed /\ rpc[r] = "returned" /\ rpc' = [rpc EXCEPT ![r] = "none"]
              /\ UNCHANGED <<durable, wpc, wver, snap, started, finished, lo, hi, crashed>>

\* a kill at any instant: the writer and the readers vanish, the durable version stays
Crash == WithCrash /\ ~crashed /\ crashed' = TRUE /\ wpc' = "idle" /\ rpc' = [r \in Readers |-> "none"]
              /\ UNCHANGED <<durable, wver, snap, started, finished, lo, hi>>

Next == BeginWrite \/ CommitCall \/ CommitDurable \/ CommitReturn \/ Abort \/ Crash
        \/ \E r \in Readers : BeginCall(r) \/ Begin(r) \/ BeginReturn(r) \/ End(r)
Spec == Init /\ [][Next]_vars

\* what a trace can check from stamps alone is implied by the model:
\* a returned reader's snapshot lies between the newest version committed before its begin was called
\* and the newest version whose commit had been called when its begin returned
SnapshotWithinObservableBounds ==
  \A r \in Readers : rpc[r] = "returned" => lo[r] <= snap[r] /\ snap[r] <= hi[r]
\* a reader never sees a version whose commit has not at least been called
NoUncommittedRead == \A r \in Readers : rpc[r] \in {"open", "returned"} => snap[r] = 0 \/ snap[r] \in started
\* after a crash the surviving version is the last acknowledged one, or the one in flight
RecoveredIsAckedOrInFlight ==
  crashed => (durable = MaxS(finished) \/ (durable \in started /\ durable = MaxS(finished) + 1))
\* versions become durable one at a time, in order
DurableMonotone == [][durable' >= durable /\ durable' <= durable + 1]_vars
=============================================================================
