------------------------------- MODULE Upgrade -------------------------------
(***************************************************************************)
(* src/upgrade.rs as database-to-database functions on abstract indexes.   *)
(* A 0.4 index is [dim, store, pending, meta, nodes]: no version record,   *)
(* pending updates as ONE set, its own numbering of key / child kinds       *)
(* (resolved to "I"/"T" by whoever decodes the old layout).                 *)
(***************************************************************************)
EXTENDS Store

OldName == "?angular"
Up04to05(o) ==
  [metric |-> "cos", dim |-> o.dim, store |-> o.store, updated |-> o.pending,
   meta |-> IF o.meta = NoMeta THEN NoMeta ELSE [o.meta EXCEPT !.metric = "cos"],
   version |-> NoVersion, nodes |-> o.nodes]
Down05to04(ix) ==
  [dim |-> ix.dim, store |-> ix.store, pending |-> ix.updated,
   meta |-> IF ix.meta = NoMeta THEN NoMeta ELSE [ix.meta EXCEPT !.metric = OldName], nodes |-> ix.nodes]
Up05to06(ix, v) == [ix EXCEPT !.version = IF ix.meta # NoMeta THEN v ELSE NoVersion]


\* the theorem C17 rests on: upgrading the downgrade of any version-less cosine index gives it back
RoundTrip(ix) ==
  LET c == [ix EXCEPT !.metric = "cos", !.version = NoVersion,
                      !.meta = IF ix.meta = NoMeta THEN NoMeta ELSE [ix.meta EXCEPT !.metric = "cos"]]
  IN Up04to05(Down05to04(c)) = c
\* 0.5 -> 0.6 touches nothing but the version record, and sets it iff there is metadata
VersionStamp(ix) ==
  LET u == Up05to06([ix EXCEPT !.version = NoVersion], <<0, 6, 1>>)
  IN /\ (u.version # NoVersion) <=> (ix.meta # NoMeta)
     /\ [u EXCEPT !.version = NoVersion] = [ix EXCEPT !.version = NoVersion]
=============================================================================
