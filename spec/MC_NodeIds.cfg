SPECIFICATION Spec
CONSTANTS
  Threads = {1, 2}
  MaxReq = 3
  IdSpace = {0, 1, 2, 3, 4, 5}
  Atomic = TRUE
INVARIANTS
  Unique
  OnlyFreeIds
  CountExact
PROPERTIES
  AllDone
CHECK_DEADLOCK FALSE
