------------------------------ MODULE TraceNum -------------------------------
(***************************************************************************)
(* Validation of the binary-quantisation and kernel cases recorded from    *)
(* the real code (harness/src/numeric.rs) against Numeric.tla.             *)
(***************************************************************************)
EXTENDS Numeric, Json, IOUtils

Rec == ndJsonDeserialize(IOEnv.TRACE)
VARIABLE l

Report(e, bad) ==
  \A v \in bad : PrintT("VIOL|" \o ToString(e.h) \o "|" \o ToString(e.k) \o "|" \o ToString(l) \o "|" \o v[1] \o "|" \o v[2] \o "|" \o e.ev)

\* read-back value classes: 1 = +1, 0 = -1, 2 = neither (a defect)
FirstD(x, d) == IF Len(x) >= d THEN SubSeq(x, 1, d) ELSE <<>>
PaddingMinus(x, d) == \A k \in (d + 1) .. Len(x) : x[k] = 0

BQ ==
  /\ l <= Len(Rec) /\ Rec[l].ev = "BQ"
  /\ LET e == Rec[l]
         d == e.d
         bad ==
           (IF \E k \in DOMAIN e.conv : FirstD(e.conv[k].to_vec, d) # e.conv[k].signs THEN {<<"C12", "to_vec_does_not_read_back_the_sign_pattern">>} ELSE {}) \cup
           (IF \E k \in DOMAIN e.conv : FirstD(e.conv[k].iter, d) # e.conv[k].signs THEN {<<"C12", "iter_does_not_read_back_the_sign_pattern">>} ELSE {}) \cup
           (IF \E k \in DOMAIN e.conv : FirstD(e.conv[k].from_vec, d) # e.conv[k].signs THEN {<<"C12", "from_vec_does_not_keep_the_sign_pattern">>} ELSE {}) \cup
           (IF \E k \in DOMAIN e.conv : e.conv[k].len # Padded(d) \/ Len(e.conv[k].to_vec) # Padded(d) \/ Len(e.conv[k].iter) # Padded(d)
            THEN {<<"C12", "stored_length_is_not_the_dimension_rounded_up_to_64">>} ELSE {}) \cup
           (IF \E k \in DOMAIN e.conv : ~PaddingMinus(e.conv[k].to_vec, d) \/ ~PaddingMinus(e.conv[k].iter, d) THEN {<<"C12", "padding_bits_not_zero">>} ELSE {}) \cup
           (IF \E k \in DOMAIN e.conv : ~PackRoundTrip(e.conv[k].signs) \/ ~PaddingZero(e.conv[k].signs) THEN {<<"C12", "model_pack_unpack">>} ELSE {}) \cup
           (IF \E k \in DOMAIN e.pairs : ~EucOk(e.pairs[k][2], e.pairs[k][1], d) \/ ~EucOk(e.pairs[k][3], e.pairs[k][1], d) THEN {<<"C12", "euclidean_is_not_4h_over_d">>} ELSE {}) \cup
           (IF \E k \in DOMAIN e.pairs : ~ManOk(e.pairs[k][4], e.pairs[k][1], d) \/ ~ManOk(e.pairs[k][5], e.pairs[k][1], d) THEN {<<"C12", "manhattan_is_not_2h_over_d">>} ELSE {}) \cup
           (IF \E k \in DOMAIN e.pairs : ~CosOk(e.pairs[k][6], e.pairs[k][1], d) \/ ~CosOk(e.pairs[k][7], e.pairs[k][1], d) THEN {<<"C12", "cosine_is_not_h_over_padded_d">>} ELSE {}) \cup
           (IF \E k \in DOMAIN e.pairs : e.pairs[k][2] # e.pairs[k][3] \/ e.pairs[k][4] # e.pairs[k][5] \/ e.pairs[k][6] # e.pairs[k][7] THEN {<<"C12", "distance_not_symmetric">>} ELSE {}) \cup
           (IF \E k \in DOMAIN e.pairs : e.pairs[k][1] = 0 /\ (e.pairs[k][2] # 0 \/ e.pairs[k][4] # 0 \/ e.pairs[k][6] # 0) THEN {<<"C12", "equal_patterns_at_non_zero_distance">>} ELSE {})
     IN Report(e, bad)
  /\ l' = l + 1

BQE2E ==
  /\ l <= Len(Rec) /\ Rec[l].ev = "BQE2E"
  /\ LET e == Rec[l]
         d == e.d
         ok(micro, h) == IF e.metric = "bqe" THEN EucOk(micro, h, d) ELSE IF e.metric = "bqm" THEN ManOk(micro, h, d) ELSE CosOk(micro, h, d)
         bad ==
           (IF \E k \in DOMAIN e.items : FirstD(e.items[k].stored, d) # e.items[k].signs \/ ~PaddingMinus(e.items[k].stored, d) \/ e.items[k].words # Words(d)
            THEN {<<"C12", "stored_words_are_not_the_packed_sign_pattern">>} ELSE {}) \cup
           (IF \E k \in DOMAIN e.items : e.items[k].item_vector # e.items[k].signs THEN {<<"C12", "item_vector_does_not_read_back_the_sign_pattern">>} ELSE {}) \cup
           (IF \E k \in DOMAIN e.query : e.query[k][1] < 0 \/ ~ok(e.query[k][3], e.query[k][2]) THEN {<<"C12", "query_distance_is_not_the_hamming_formula">>} ELSE {}) \cup
           (IF \E k \in DOMAIN e.query : k + 1 \in DOMAIN e.query /\ e.query[k][2] > e.query[k + 1][2] THEN {<<"C12", "neighbours_not_ordered_by_hamming_distance">>} ELSE {}) \cup
           (IF Len(e.query) # Len(e.items) THEN {<<"C12", "query_did_not_return_every_item">>} ELSE {})
     IN Report(e, bad)
  /\ l' = l + 1

\* expected integer values of one kernel case
CaseVecs(c, n) ==
  CASE c.fam = "onehot" -> <<OneHot(n, c.p[1], c.p[3]), OneHot(n, c.p[2], c.p[4])>>
    [] c.fam = "ramp" -> <<RampU(n), RampV(n)>>
    [] c.fam = "signs" -> <<SignsU(n), SignsV(n)>>
    [] OTHER -> <<c.p[1], c.p[2]>>

Kernel ==
  /\ l <= Len(Rec) /\ Rec[l].ev = "Kernel"
  /\ LET e == Rec[l]
         n == e.len
         bad == UNION {
           LET c == e.cases[k]
               uv == CaseVecs(c, n)
               u == uv[1]
               v == uv[2]
               eu == SumSq(u, v, n)
               ma == SumAbs(u, v, n)
               dp == Dot(u, v, n)
           IN (IF c.euc[1] # eu \/ c.euc[2] # eu THEN {<<"C11", "euclidean_kernel_" \o PathAvxHost(n)>>} ELSE {}) \cup
              (IF c.euc[3] # 0 \/ c.man[3] # 0 THEN {<<"C11", "self_distance_not_zero">>} ELSE {}) \cup
              (IF c.man[1] # ma \/ c.man[2] # ma THEN {<<"C11", "manhattan_sum">>} ELSE {}) \cup
              (IF c.dot[1] # dp \/ c.dot[2] # dp THEN {<<"C11", "dot_product_kernel_" \o PathAvxHost(n)>>} ELSE {}) \cup
              (IF c.cos[1] # c.cos[2] THEN {<<"C11", "cosine_not_symmetric">>} ELSE {}) \cup
              (IF c.fam = "onehot" /\ c.p[1] # c.p[2] /\ Abs(c.cos[1] - 500000) > 1 THEN {<<"C11", "cosine_of_orthogonal_vectors_is_not_one_half">>} ELSE {}) \cup
              (IF c.fam = "onehot" /\ c.p[1] = c.p[2] /\ c.p[3] * c.p[4] < 0 /\ Abs(c.cos[1] - 1000000) > 1 THEN {<<"C11", "cosine_of_opposite_vectors_is_not_one">>} ELSE {}) \cup
              (IF c.fam = "onehot" /\ c.p[1] = c.p[2] /\ c.p[3] * c.p[4] > 0 /\ Abs(c.cos[1]) > 1 THEN {<<"C11", "cosine_of_parallel_vectors_is_not_zero">>} ELSE {}) \cup
              (IF Dot(u, u, n) > 0 /\ Abs(c.cos[3]) > 1 THEN {<<"C11", "cosine_self_distance_not_zero">>} ELSE {})
           : k \in DOMAIN e.cases }
           \cup (IF ~EachIndexOnce(n, PathAvxHost(n)) \/ ~EachIndexOnce(n, "sse") \/ ~EachIndexOnce(n, "scalar") THEN {<<"C11", "model_lane_structure">>} ELSE {})
     IN Report(e, bad)
  /\ l' = l + 1

TraceSpec == l = 1 /\ [][BQ \/ BQE2E \/ Kernel]_l
TraceAccepted ==
  LET d == TLCGet("stats").diameter IN
  IF d = Len(Rec) + 1 THEN TRUE ELSE Print(<<"STUCK", d>>, FALSE)
=============================================================================
