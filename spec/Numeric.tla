------------------------------- MODULE Numeric -------------------------------
(***************************************************************************)
(* What is discrete in binary quantisation (C12) and in the distance       *)
(* kernels (C11), as exact integer arithmetic.                              *)
(*                                                                         *)
(* C12: Pack / Unpack of sign patterns into 64-bit words, Hamming distance, *)
(* and the three distances as rationals: 4h/d, 2h/d, h/(64*ceil(d/64)).     *)
(* C11: the dispatch and lane structure of the f32 kernels (which indices   *)
(* go to which accumulator lane, which to the scalar tail), and the exact   *)
(* value of each metric on inputs made of small integers, where IEEE f32    *)
(* arithmetic is exact in any association order.                            *)
(* The clause "within the rounding error of single-precision summation" on  *)
(* general inputs cannot be stated over integers and is NOT claimed here.   *)
(***************************************************************************)
EXTENDS Naturals, Integers, Sequences, FiniteSets, TLC

Abs(x) == IF x < 0 THEN -x ELSE x
Words(d) == (d + 63) \div 64
Padded(d) == 64 * Words(d)

\* ---- C12 --------------------------------------------------------------------
\* a sign pattern is a sequence of 0/1 of length d (1 = positive sign bit)
Pack(s) == [w \in 1 .. Words(Len(s)) |-> [j \in 0 .. 63 |-> IF 64 * (w - 1) + j + 1 <= Len(s) THEN s[64 * (w - 1) + j + 1] ELSE 0]]
Unpack(words, d) == [k \in 1 .. d |-> words[((k - 1) \div 64) + 1][(k - 1) % 64]]
UnpackAll(words) == [k \in 1 .. 64 * Len(words) |-> words[((k - 1) \div 64) + 1][(k - 1) % 64]]
Hamming(s, t) == Cardinality({k \in DOMAIN s : s[k] # t[k]})

PackRoundTrip(s) == Unpack(Pack(s), Len(s)) = s
PaddingZero(s) == \A k \in (Len(s) + 1) .. Padded(Len(s)) : UnpackAll(Pack(s))[k] = 0

\* distances in millionths, with a tolerance of 3 millionths expressed without division
EucOk(micro, h, d) == Abs(micro * d - 4 * h * 1000000) <= 3 * d
ManOk(micro, h, d) == Abs(micro * d - 2 * h * 1000000) <= 3 * d
CosOk(micro, h, d) == Abs(micro * Padded(d) - h * 1000000) <= 3 * Padded(d)

\* ---- C11: lane structure ----------------------------------------------------
\* the path the dispatcher takes for a length on an AVX+FMA host, and on an SSE-only host
PathAvxHost(n) == IF n >= 32 THEN "avx" ELSE IF n >= 16 THEN "sse" ELSE "scalar"
Unroll(path) == IF path = "avx" THEN 32 ELSE IF path = "sse" THEN 16 ELSE 1
LaneWidth(path) == IF path = "avx" THEN 8 ELSE IF path = "sse" THEN 4 ELSE 1
MainEnd(n, path) == n - (n % Unroll(path))
\* index i (0-based) is consumed by: <<"main", accumulator 0..3, lane>> or <<"tail">>
Consumer(i, n, path) ==
  IF path = "scalar" \/ i >= MainEnd(n, path) THEN <<"tail", 0, 0>>
  ELSE <<"main", (i % Unroll(path)) \div LaneWidth(path), i % LaneWidth(path)>>
\* every index 0..n-1 is consumed exactly once: the main loop covers [0, MainEnd) in blocks of Unroll,
\* four accumulators of LaneWidth lanes each, the scalar tail covers [MainEnd, n)
EachIndexOnce(n, path) ==
  /\ MainEnd(n, path) % Unroll(path) = 0
  /\ 4 * LaneWidth(path) = Unroll(path) \/ path = "scalar"
  /\ \A i \in 0 .. (n - 1) : Consumer(i, n, path)[1] = (IF i < MainEnd(n, path) /\ path # "scalar" THEN "main" ELSE "tail")
  /\ n - MainEnd(n, path) < Unroll(path)

\* ---- C11: exact values on integer vectors -----------------------------------
RECURSIVE SumSq(_, _, _)
SumSq(u, v, k) == IF k = 0 THEN 0 ELSE (u[k] - v[k]) * (u[k] - v[k]) + SumSq(u, v, k - 1)
RECURSIVE SumAbs(_, _, _)
SumAbs(u, v, k) == IF k = 0 THEN 0 ELSE Abs(u[k] - v[k]) + SumAbs(u, v, k - 1)
RECURSIVE Dot(_, _, _)
Dot(u, v, k) == IF k = 0 THEN 0 ELSE u[k] * v[k] + Dot(u, v, k - 1)

\* the probe families of the harness (0-based index i, as generated)
RampU(n) == [k \in 1 .. n |-> ((k - 1) % 7) - 3]
RampV(n) == [k \in 1 .. n |-> (((k - 1) * 3) % 5) - 2]
SignsU(n) == [k \in 1 .. n |-> 1]
SignsV(n) == [k \in 1 .. n |-> IF (((k - 1) \div 3) % 2) = 0 THEN 1 ELSE -1]
OneHot(n, p, a) == [k \in 1 .. n |-> IF k = p THEN a ELSE 0]
=============================================================================
