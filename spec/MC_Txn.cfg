SPECIFICATION Spec
CONSTANTS
  Readers = {1, 2}
  MaxVersion = 3
  WithCrash = TRUE
INVARIANTS
  SnapshotWithinObservableBounds
  NoUncommittedRead
  RecoveredIsAckedOrInFlight
PROPERTIES
  DurableMonotone
CHECK_DEADLOCK FALSE
