------------------------------- MODULE KeyOps --------------------------------
(***************************************************************************)
(* The key layout as pure operators (src/key.rs, src/node_id.rs; DESIGN.md *)
(* Appendix A).  Keys.tla states and checks the theorems about them;        *)
(* TraceMain.tla re-encodes the keys found in real databases with Enc.      *)
(***************************************************************************)
EXTENDS Naturals, Sequences, FiniteSets, TLC

KMeta == 0  KUpdated == 1  KTree == 2  KItem == 3
Kinds == {KMeta, KUpdated, KTree, KItem}

Byte(n, k) == (n \div (256 ^ k)) % 256
\* TLC's integers are 32-bit signed: a u32 id is carried as the pair <<high 16 bits, low 16 bits>>
\* (2^31 = <<32768, 0>>, 2^32 - 1 = <<65535, 65535>>), ordered lexicographically.
IdLess(a, b) == a[1] < b[1] \/ (a[1] = b[1] /\ a[2] < b[2])
\* 8 bytes: index u16 big-endian, kind u8, id u32 big-endian, one zero padding byte
Enc(i, k, id) == <<Byte(i, 1), Byte(i, 0), k, Byte(id[1], 1), Byte(id[1], 0), Byte(id[2], 1), Byte(id[2], 0), 0>>
Dec(b) == [index |-> b[1] * 256 + b[2], kind |-> b[3], id |-> <<b[4] * 256 + b[5], b[6] * 256 + b[7]>>]

RECURSIVE LexLess(_, _)
LexLess(a, b) ==
  IF a = <<>> THEN b # <<>>
  ELSE IF b = <<>> THEN FALSE
  ELSE IF Head(a) # Head(b) THEN Head(a) < Head(b)
  ELSE LexLess(Tail(a), Tail(b))

TupleLess(a, b) == \* (index, kind, id) order
  \/ a[1] < b[1]
  \/ a[1] = b[1] /\ a[2] < b[2]
  \/ a[1] = b[1] /\ a[2] = b[2] /\ IdLess(a[3], b[3])

IsPrefix(p, s) == Len(p) <= Len(s) /\ SubSeq(s, 1, Len(p)) = p
PrefixIndex(i) == <<Byte(i, 1), Byte(i, 0)>>
PrefixKind(i, k) == <<Byte(i, 1), Byte(i, 0), k>>

=============================================================================
