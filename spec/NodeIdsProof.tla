--------------------------- MODULE NodeIdsProof ----------------------------
(***************************************************************************)
(* Unbounded version of NodeIds.tla: ANY set of threads, each requesting   *)
(* ids forever, ANY finite set of used ids.  The actions are the atomic    *)
(* operations of ConcurrentNodeIds::next (src/parallel.rs), as in          *)
(* NodeIdsOps.Step.  Proved with TLAPS: no id is ever handed out twice     *)
(* and no used id is ever handed out (the first sentence of C13).          *)
(*                                                                         *)
(* The three facts assumed about the constants are what                    *)
(* ConcurrentNodeIds::new computes (NodeIdsOps.InitState / AvailOf); TLC   *)
(* checks them for every used set of a small id space (MC_NodeIdsBridge).  *)
(***************************************************************************)
EXTENDS Naturals, Sequences, TLAPS

CONSTANTS Threads, Used, Avail, Cur0

ASSUME ConstAssump ==
  /\ Cur0 \in Nat
  /\ Used \subseteq Nat
  /\ \A u \in Used : u < Cur0                         \* current starts above every used id
  /\ Avail \in Seq(Nat)
  /\ \A k \in 1 .. Len(Avail) : Avail[k] \notin Used /\ Avail[k] < Cur0   \* recyclable ids are gaps
  /\ \A j, k \in 1 .. Len(Avail) : j # k => Avail[j] # Avail[k]            \* select() is injective

VARIABLES cur, sel, look, pc, handed, dup
vars == <<cur, sel, look, pc, handed, dup>>

Labels == {"idle", "look", "sel", "off", "cur"}

Init ==
  /\ cur = Cur0
  /\ sel = 0
  /\ look = (Len(Avail) > 0)
  /\ pc = [t \in Threads |-> "idle"]
  /\ handed = {}
  /\ dup = FALSE

\* the thread returns id to its caller
Ret(id) ==
  /\ handed' = handed \cup {id}
  /\ dup' = (dup \/ id \in handed \/ id \in Used)

Start(t) ==
  /\ pc[t] = "idle"
  /\ pc' = [pc EXCEPT ![t] = "look"]
  /\ UNCHANGED <<cur, sel, look, handed, dup>>

Look(t) ==
  /\ pc[t] = "look"
  /\ pc' = [pc EXCEPT ![t] = IF look THEN "sel" ELSE "cur"]
  /\ UNCHANGED <<cur, sel, look, handed, dup>>

SelHit(t) ==
  /\ pc[t] = "sel"
  /\ sel + 1 <= Len(Avail)
  /\ sel' = sel + 1
  /\ Ret(Avail[sel + 1])
  /\ pc' = [pc EXCEPT ![t] = "idle"]
  /\ UNCHANGED <<cur, look>>

SelMiss(t) ==
  /\ pc[t] = "sel"
  /\ ~(sel + 1 <= Len(Avail))
  /\ sel' = sel + 1
  /\ pc' = [pc EXCEPT ![t] = "off"]
  /\ UNCHANGED <<cur, look, handed, dup>>

Off(t) ==
  /\ pc[t] = "off"
  /\ look' = FALSE
  /\ pc' = [pc EXCEPT ![t] = "cur"]
  /\ UNCHANGED <<cur, sel, handed, dup>>

Cur(t) ==
  /\ pc[t] = "cur"
  /\ cur' = cur + 1
  /\ Ret(cur)
  /\ pc' = [pc EXCEPT ![t] = "idle"]
  /\ UNCHANGED <<sel, look>>

Next == \E t \in Threads : Start(t) \/ Look(t) \/ SelHit(t) \/ SelMiss(t) \/ Off(t) \/ Cur(t)

Spec == Init /\ [][Next]_vars

-----------------------------------------------------------------------------
Unique == ~dup

TypeOK ==
  /\ cur \in Nat /\ sel \in Nat /\ look \in BOOLEAN /\ dup \in BOOLEAN
  /\ pc \in [Threads -> Labels]
  /\ handed \subseteq Nat

\* where every id handed out so far came from
Origin ==
  \A x \in handed :
     \/ \E k \in 1 .. Len(Avail) : k <= sel /\ x = Avail[k]
     \/ Cur0 <= x /\ x < cur

Inv == TypeOK /\ Cur0 <= cur /\ Origin /\ Unique

THEOREM InitInv == Init => Inv
  BY ConstAssump DEF Init, Inv, TypeOK, Origin, Unique, Labels

THEOREM NextInv == Inv /\ [Next]_vars => Inv'
<1> SUFFICES ASSUME Inv, [Next]_vars PROVE Inv' OBVIOUS
<1> USE ConstAssump
<1>1. CASE UNCHANGED vars
  BY <1>1 DEF Inv, TypeOK, Origin, Unique, vars
<1>2. ASSUME NEW t \in Threads, Start(t) PROVE Inv'
  BY <1>2 DEF Inv, TypeOK, Origin, Unique, Start, Labels
<1>3. ASSUME NEW t \in Threads, Look(t) PROVE Inv'
  BY <1>3 DEF Inv, TypeOK, Origin, Unique, Look, Labels
<1>4. ASSUME NEW t \in Threads, SelMiss(t) PROVE Inv'
  BY <1>4 DEF Inv, TypeOK, Origin, Unique, SelMiss, Labels
<1>5. ASSUME NEW t \in Threads, Off(t) PROVE Inv'
  BY <1>5 DEF Inv, TypeOK, Origin, Unique, Off, Labels
<1>6. ASSUME NEW t \in Threads, SelHit(t) PROVE Inv'
  <2> DEFINE id == Avail[sel + 1]
  <2>0. sel \in Nat /\ sel + 1 \in 1 .. Len(Avail) /\ id \in Nat /\ id \notin Used /\ id < Cur0
    BY <1>6 DEF Inv, TypeOK, SelHit
  <2>1. id \notin handed
    <3> SUFFICES ASSUME id \in handed PROVE FALSE OBVIOUS
    <3>1. CASE \E k \in 1 .. Len(Avail) : k <= sel /\ id = Avail[k]
      BY <3>1, <2>0
    <3>2. CASE Cur0 <= id /\ id < cur
      BY <3>2, <2>0
    <3> QED BY <3>1, <3>2 DEF Inv, Origin
  <2>2. TypeOK'
    BY <1>6, <2>0 DEF Inv, TypeOK, SelHit, Ret, Labels
  <2>3. Origin'
    BY <1>6, <2>0 DEF Inv, TypeOK, Origin, SelHit, Ret
  <2>4. Unique'
    BY <1>6, <2>0, <2>1 DEF Inv, Unique, SelHit, Ret
  <2> QED BY <1>6, <2>2, <2>3, <2>4 DEF Inv, SelHit
<1>7. ASSUME NEW t \in Threads, Cur(t) PROVE Inv'
  <2>0. cur \in Nat /\ Cur0 <= cur /\ cur \notin Used
    BY <1>7 DEF Inv, TypeOK
  <2>1. cur \notin handed
    <3> SUFFICES ASSUME cur \in handed PROVE FALSE OBVIOUS
    <3>1. CASE \E k \in 1 .. Len(Avail) : k <= sel /\ cur = Avail[k]
      BY <3>1, <2>0
    <3>2. CASE Cur0 <= cur /\ cur < cur
      BY <3>2, <2>0
    <3> QED BY <3>1, <3>2 DEF Inv, Origin
  <2>2. TypeOK'
    BY <1>7, <2>0 DEF Inv, TypeOK, Cur, Ret, Labels
  <2>3. Origin'
    BY <1>7, <2>0 DEF Inv, TypeOK, Origin, Cur, Ret
  <2>4. Unique'
    BY <1>7, <2>0, <2>1 DEF Inv, Unique, Cur, Ret
  <2> QED BY <1>7, <2>0, <2>2, <2>3, <2>4 DEF Inv, Cur
<1> QED BY <1>1, <1>2, <1>3, <1>4, <1>5, <1>6, <1>7 DEF Next

THEOREM Safety == Spec => []Unique
<1>1. Inv => Unique BY DEF Inv
<1> QED BY InitInv, NextInv, <1>1, PTL DEF Spec
=============================================================================
