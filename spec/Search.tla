------------------------------- MODULE Search --------------------------------
(***************************************************************************)
(* Search (src/reader.rs: nns_by_leaf) over the abstract forest.           *)
(*                                                                         *)
(* Part 1 - the algorithm: best-first traversal with a candidate budget    *)
(* and a filter, as a function of the forest, the margin signs / priority  *)
(* ranks of the query at every split, and the distance ranks of the items. *)
(* MC_Search.cfg checks exactness, budget-monotonicity and self-lookup on  *)
(* it for every forest of a small universe.                                *)
(*                                                                         *)
(* Part 2 - the observable contract (C02, C03, C04, C19) as predicates on  *)
(* logged query results; TraceMain.tla evaluates them on real executions.  *)
(* Distances appear only as tie-class ranks (cls) and as the projection's  *)
(* verdict `dok` on the reported value; both come from the harness's f64   *)
(* oracle (trusted base of C02/C03).                                       *)
(***************************************************************************)
EXTENDS Forest

-----------------------------------------------------------------------------
(* Part 1: the algorithm *)

\* saturating budget: count x trees (when unset) x oversampling
\* (written without computing a * b when it would exceed max: TLC's integers are 32-bit, like the
\* usize of the code is 64-bit - the pinned code overflowed here, finding F3)
SatMul(a, b, max) == IF a = 0 \/ b = 0 THEN 0 ELSE IF a > max \div b THEN max ELSE a * b
Budget(count, sk, over, ntrees, defOver, max) ==
  LET base == IF sk = 0 THEN SatMul(count, ntrees, max) ELSE sk
  IN SatMul(base, IF over = 0 THEN defOver ELSE over, max)

(* The queue holds <<priority, ref>>; pop takes the greatest priority and, among equal
   priorities, the greatest reference (BinaryHeap over (OrderedFloat, NodeId), NodeId ordered by
   (kind, id) with Tree < Item).  `prio(nid, side)` gives the priority contribution of going to
   that side of split nid: an integer rank, positive on the query's own side. *)
RefKey(r) == IF IsItem(r) THEN 1000000 + r[2] ELSE r[2]
Better(a, b) == a[1] > b[1] \/ (a[1] = b[1] /\ RefKey(a[2]) > RefKey(b[2]))
MinI(a, b) == IF a < b THEN a ELSE b

\* The queue is a BAG (a sequence here): the same single-item child is reachable from several trees and is
\* then queued, popped and counted once per tree (the first version of this module used a set; the
\* conformance check against recorded searches showed the difference on forests of item-only splits).
TopIndex(q) == CHOOSE k \in DOMAIN q : \A j \in DOMAIN q : j = k \/ Better(q[k], q[j]) \/ (q[k] = q[j] /\ k < j)
RemoveAt(q, k) == [j \in 1 .. (Len(q) - 1) |-> IF j < k THEN q[j] ELSE q[j + 1]]

RECURSIVE VisitLoop(_, _, _, _, _, _, _)
\* returns the sequence of candidate item ids in the order they were collected (duplicates kept)
VisitLoop(nodes, queue, cands, budget, filter, prio, fuel) ==
  IF Len(cands) >= budget \/ queue = <<>> \/ fuel = 0 THEN cands
  ELSE LET k == TopIndex(queue)
           top == queue[k]
           rest == RemoveAt(queue, k)
           r == top[2]
       IN IF IsItem(r)
          THEN VisitLoop(nodes, rest, IF r[2] \in filter THEN Append(cands, r[2]) ELSE cands,
                         budget, filter, prio, fuel - 1)
          ELSE IF r[2] \notin DOMAIN nodes THEN cands   \* MissingKey error in the code
          ELSE LET n == nodes[r[2]] IN
               IF IsBucket(n)
               THEN VisitLoop(nodes, rest, cands \o SortedSeq(n.items \cap filter), budget, filter, prio, fuel - 1)
               ELSE VisitLoop(nodes,
                              rest \o <<<<MinI(top[1], prio[<<r[2], "L">>]), n.l>>,
                                        <<MinI(top[1], prio[<<r[2], "R">>]), n.r>>>>,
                              cands, budget, filter, prio, fuel - 1)

Infinity == 1000000
Visit(nodes, roots, budget, filter, prio) ==
  VisitLoop(nodes, [k \in DOMAIN roots |-> <<Infinity, TreeRef(roots[k])>>], <<>>, budget, filter, prio,
            4 * (Cardinality(DOMAIN nodes) + 1) * (Len(roots) + 1) + 8)

\* the answer: the `count` best distinct candidates by (distance rank, id)
RECURSIVE TakeBest(_, _, _)
TakeBest(S, k, drank) ==
  IF k = 0 \/ S = {} THEN <<>>
  ELSE LET m == CHOOSE x \in S : \A y \in S : drank[x] < drank[y] \/ (drank[x] = drank[y] /\ x <= y)
       IN <<m>> \o TakeBest(S \ {m}, k - 1, drank)
Answer(nodes, roots, count, budget, filter, prio, drank) ==
  TakeBest(SeqToSet(Visit(nodes, roots, budget, filter, prio)), count, drank)

-----------------------------------------------------------------------------
(* Part 2: the contract on logged results *)

JS(s) == {s[k] : k \in DOMAIN s}
NonDecreasingCls(cls) ==
  \A j, k \in DOMAIN cls : (j < k /\ cls[j] > 0 /\ cls[k] > 0) => cls[j] <= cls[k]

SortInts(s) == SortSeq(s, LAMBDA a, b : a < b)

\* one result list against its population (pop: <<id, cls>> pairs of the stored items inside the filter)
ResultDefects(res, pop, countEff, exhaustive, filtered) ==
  IF res.c # "Ok" THEN {<<"C03", "query_returned_" \o res.c>>}
  ELSE
    LET popIds == {pop[k][1] : k \in DOMAIN pop}
        popCls == SortInts([k \in DOMAIN pop |-> pop[k][2]])
        exactProp == IF filtered THEN "C03" ELSE "C02"
    IN  (IF Len(res.ids) > countEff THEN {<<"C03", "more_results_than_count">>} ELSE {})
   \cup (IF ~NoDup(res.ids) THEN {<<"C03", "duplicate_result">>} ELSE {})
   \cup (IF ~(JS(res.ids) \subseteq popIds) THEN {<<"C03", "result_not_stored_or_outside_filter">>} ELSE {})
   \cup (IF ~NonDecreasingCls(res.cls) \/ ~res.ord THEN {<<"C03", "not_nearest_first">>} ELSE {})
   \cup (IF \E k \in DOMAIN res.dok : res.dok[k] = 0 THEN {<<"C03", "reported_distance_wrong">>, <<"C02", "reported_distance_wrong">>} ELSE {})
   \cup (IF exhaustive /\ Len(res.ids) # countEff THEN {<<exactProp, "unlimited_budget_missed_items">>} ELSE {})
   \cup (IF exhaustive /\ Len(res.ids) = countEff /\ (\A k \in DOMAIN popCls : popCls[k] > 0)
            /\ res.cls # SubSeq(popCls, 1, Len(res.ids))
         THEN {<<exactProp, "unlimited_budget_not_the_nearest">>} ELSE {})

\* budget monotonicity along a chain of results that differ only in search_k
MonotoneDefects(chain) ==
  LET ex == {k \in DOMAIN chain : chain[k].sk # 0 /\ chain[k].res.c = "Ok"}
  IN IF \E a, b \in ex :
          /\ chain[a].budget <= chain[b].budget
          /\ \/ Len(chain[a].res.ids) > Len(chain[b].res.ids)
             \/ \E j \in DOMAIN chain[a].res.ids :
                   /\ j \in DOMAIN chain[b].res.ids
                   /\ chain[a].res.cls[j] > 0 /\ chain[b].res.cls[j] > 0
                   /\ chain[b].res.cls[j] > chain[a].res.cls[j]
     THEN {<<"C03", "larger_budget_worse_result">>} ELSE {}

\* Conformance of the traversal itself: with the priorities the reader computes at every split (logged from
\* arroy's own margin function), the candidates found under each budget are exactly those of Visit.
\* Observable when count >= population: the result is then the whole candidate set.
JPrio(p) ==
  [x \in UNION {{<<p[k][1], "L">>, <<p[k][1], "R">>} : k \in DOMAIN p} |->
     LET k == CHOOSE k \in DOMAIN p : p[k][1] = x[1] IN IF x[2] = "L" THEN p[k][2] ELSE p[k][3]]
SearchDrift(q, roots, live, nodes) ==
  IF q.open # "Ok" THEN {}
  ELSE IF ForestDefects(nodes, roots, live, live) # {} THEN {}
  ELSE IF \E a \in DOMAIN q.queries : \E b \in DOMAIN q.queries[a].groups : \E c \in DOMAIN q.queries[a].groups[b].chains :
            LET qq == q.queries[a]
                g == qq.groups[b]
                ch == g.chains[c]
                popIds == {g.pop[k][1] : k \in DOMAIN g.pop}
            IN /\ ch.count_eff = Len(g.pop)
               /\ \E k \in DOMAIN ch.chain :
                     /\ ch.chain[k].res.c = "Ok"
                     /\ JS(ch.chain[k].res.ids) # SeqToSet(Visit(nodes, roots, ch.chain[k].budget, popIds, JPrio(qq.prio)))
       THEN {<<"C03", "results_differ_from_the_specified_traversal">>}
       ELSE {}

SearchDefects(q, ix, nodesMs, Side(_, _)) ==
  IF q.open # "Ok" THEN {}   \* the index did not open: nothing to query (C06 judges the open result)
  ELSE
    LET full == q.n * q.ntrees
        roots == ix.meta.roots
    IN
    UNION { UNION { UNION {
        UNION { ResultDefects(ch.chain[k].res, g.pop, ch.count_eff,
                              ch.chain[k].budget >= full \/ ch.chain[k].budget >= 1073741824,
                              g.filter # "none")
                : k \in DOMAIN ch.chain }
        \cup MonotoneDefects(ch.chain)
        \cup (IF ch.dflt_same = 0 THEN {<<"C03", "unset_budget_is_not_count_x_trees_x_oversampling">>} ELSE {})
        \cup (IF ch.byitem_eq = 0 THEN {<<"C03", "by_item_differs_from_by_vector">>} ELSE {})
        : ch \in JS(g.chains) } : g \in JS(qq.groups) } : qq \in JS(q.queries) }
    \cup (IF q.unknown # "None" THEN {<<"C03", "unknown_id_gave_" \o q.unknown>>} ELSE {})
    \cup (IF \E k \in DOMAIN q.baddim :
               LET r == q.baddim[k].res IN
               r.c # "DimErr" \/ (r.c = "DimErr" /\ (r.exp # q.dim \/ r.got # q.baddim[k].len))
          THEN {<<"C19", "search_with_wrong_length">>} ELSE {})
    \cup (IF q.n > 0 /\ q.ntrees = 0 THEN {<<"C15", "non_empty_index_without_tree">>} ELSE {})
    \cup (IF q.sides /\ \E k \in DOMAIN q.self :
               /\ ~q.self[k][2]
               \* a NaN margin anywhere in the forest disorders the queue: no claim for that query
               /\ \A n \in DOMAIN nodesMs : IsSplit(nodesMs[n]) => Side(nodesMs[n].plane, q.self[k][1]) # "N"
               /\ \E t \in DOMAIN roots : DecidedPath(nodesMs, roots[t], q.self[k][1], Side)
          THEN {<<"C04", "self_lookup_with_smallest_budget_failed">>} ELSE {})
=============================================================================
