------------------------------- MODULE TraceUp -------------------------------
(***************************************************************************)
(* C17: the two upgrade functions as database-to-database functions, and   *)
(* the validation of real runs of src/upgrade.rs against them.              *)
(*                                                                         *)
(* A 0.4 index is [dim, store, pending, meta, nodes] (no version record,   *)
(* pending updates as ONE set, its own numbering of key/child kinds which   *)
(* the old-layout decoder of the harness resolves to "I"/"T").              *)
(*   Up04to05(o)    the 0.5 index the current layout prescribes for o      *)
(*   Down05to04(ix) the inverse used to manufacture 0.4 inputs             *)
(*   Up05to06(ix)   adds a version record iff the index has metadata       *)
(* Theorem (checked on every validated database): Up04to05(Down05to04(ix))  *)
(* = ix for every version-less cosine index ix.                              *)
(***************************************************************************)
EXTENDS Upgrade, Json, IOUtils

Rec == ndJsonDeserialize(IOEnv.TRACE)
VARIABLE l

JSet(s) == {s[k] : k \in DOMAIN s}
JFun(s) == [x \in {s[k][1] : k \in DOMAIN s} |-> s[CHOOSE k \in DOMAIN s : s[k][1] = x][2]]
JNode(n) == IF n.tag = "B" THEN Bucket(JSet(n.items)) ELSE Split([zero |-> n.zero, right |-> {n.pt}, ms |-> <<>>], n.l, n.r)
JNodes(ns) == [x \in {ns[k].id : k \in DOMAIN ns} |-> JNode(ns[CHOOSE k \in DOMAIN ns : ns[k].id = x])]
JMeta(m) == IF m.has THEN [metric |-> m.metric, dim |-> m.dim, items |-> JSet(m.items), roots |-> m.roots] ELSE NoMeta
JIndex(st) == [metric |-> st.metric, dim |-> st.dim, store |-> JFun(st.store), updated |-> JSet(st.updated),
               meta |-> JMeta(st.meta), version |-> st.version, nodes |-> JNodes(st.nodes)]
JOld(st) == [dim |-> st.dim, store |-> JFun(st.store), pending |-> JSet(st.pending), meta |-> JMeta(st.meta), nodes |-> JNodes(st.nodes)]

Report(kind, e, bad) ==
  \A v \in bad : PrintT(kind \o "|" \o ToString(e.h) \o "|" \o ToString(e.k) \o "|" \o ToString(l) \o "|" \o v[1] \o "|" \o v[2] \o "|" \o e.ev)

Up04 ==
  /\ l <= Len(Rec) /\ Rec[l].ev = "Up04"
  /\ LET e == Rec[l]
         J == DOMAIN e.pre
         pre == [j \in J |-> JIndex(e.pre[j])]
         old == [j \in J |-> JOld(e.old[j])]
         post == [j \in J |-> JIndex(e.post[j])]
         bad ==
           (IF e.res.c # "Ok" THEN {<<"C17", "upgrade_returned_" \o e.res.c>>} ELSE {}) \cup
           (IF \E j \in J : post[j] # Up04to05(old[j]) THEN {<<"C17", "upgraded_content_is_not_what_the_layout_prescribes">>} ELSE {}) \cup
           (IF e.diff_keys # 0 THEN {<<"C17", "bytes_differ_from_the_current_layout_original">>} ELSE {}) \cup
           (IF \E j \in J : e.post[j].problems # <<>> \/ e.post[j].leafw_bad # 0 THEN {<<"C17", "upgraded_database_does_not_decode">>} ELSE {}) \cup
           (IF \E j \in J : e.obs_all[j].ok /\ e.obs_all[j].open # OpenRes(Up04to05(old[j]), "cos")
            THEN {<<"C17", "open_result_after_upgrade">>} ELSE {}) \cup
           (IF \E j \in J : ~e.obs_all[j].ok THEN {<<"C17", "api_panics_on_upgraded_database">>} ELSE {}) \cup
           UNION {IF post[j].meta = NoMeta \/ post[j].updated # {} THEN {}
                  ELSE {<<"C17", "forest_" \o d>> : d \in ForestDefects(post[j].nodes, post[j].meta.roots, Live(post[j]), post[j].meta.items)} : j \in J}
         drift ==
           (IF \E j \in J : old[j] # Down05to04(pre[j]) THEN {<<"C17", "harness_inversion_differs_from_Down05to04">>} ELSE {}) \cup
           (IF \E j \in J : Up04to05(Down05to04(pre[j])) # pre[j] THEN {<<"C17", "roundtrip_theorem">>} ELSE {})
     IN Report("VIOL", e, bad) /\ Report("DRIFT", e, drift)
  /\ l' = l + 1

Up05 ==
  /\ l <= Len(Rec) /\ Rec[l].ev = "Up05"
  /\ LET e == Rec[l]
         J == DOMAIN e.pre
         pre == [j \in J |-> JIndex(e.pre[j])]
         post == [j \in J |-> JIndex(e.post[j])]
         bad ==
           (IF e.res.c # "Ok" THEN {<<"C17", "upgrade_returned_" \o e.res.c>>} ELSE {}) \cup
           (IF \E j \in J : (post[j].version # NoVersion) # (pre[j].meta # NoMeta) THEN {<<"C17", "version_record_not_exactly_where_metadata_is">>} ELSE {}) \cup
           (IF \E j \in J : post[j] # Up05to06(pre[j], post[j].version) THEN {<<"C17", "upgrade_changed_something_else">>} ELSE {}) \cup
           (IF \E j \in J : post[j].version # NoVersion /\ Len(post[j].version) # 3 THEN {<<"C17", "version_record_malformed">>} ELSE {}) \cup
           (IF e.diff_keys # 0 THEN {<<"C17", "bytes_changed_besides_the_version_record">>} ELSE {}) \cup
           (IF e.foreign # 0 THEN {<<"C17", "version_record_in_an_index_without_metadata">>} ELSE {})
     IN Report("VIOL", e, bad)
  /\ l' = l + 1

TraceSpec == l = 1 /\ [][Up04 \/ Up05]_l
TraceAccepted ==
  LET d == TLCGet("stats").diameter IN
  IF d = Len(Rec) + 1 THEN TRUE ELSE Print(<<"STUCK", d>>, FALSE)
=============================================================================
