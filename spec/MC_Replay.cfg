SPECIFICATION RSpec
CONSTANTS
  Indexes = {1, 2}
  Ids = {1, 2, 3}
  Toks = {"a", "b"}
  Metrics = {"f"}
  Dim = 2
  Caps = {1, 2}
  Reqs = {0, 1, 2}
  MaxBuilds = 3
  MaxTrivial = 1
  MinBatch = 2
  AsCodedInsert = FALSE
  AsCodedDelTree = FALSE
  AsCodedBatch = FALSE
  AtLeastOne = TRUE
  WithTxn = TRUE
  WithCancel = FALSE
  WithAppend = TRUE
  QueryFlip = FALSE
INVARIANTS
  EmitWhenDone
CHECK_DEADLOCK FALSE
