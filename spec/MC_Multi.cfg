SPECIFICATION Spec
CONSTANTS
  Indexes = {1, 2}
  Ids = {1, 2}
  Toks = {"a"}
  Metrics = {"f"}
  Dim = 2
  Caps = {1}
  Reqs = {1}
  MaxBuilds = 2
  MaxTrivial = 1
  MinBatch = 2
  AsCodedInsert = FALSE
  AsCodedDelTree = FALSE
  AsCodedBatch = FALSE
  AtLeastOne = TRUE
  WithTxn = FALSE
  WithCancel = FALSE
  WithAppend = TRUE
  QueryFlip = FALSE
INVARIANTS
  ValidWhenOpen
  OpenIffFresh
  TreeCount
  RequestedTreeCount
  SingleBucketIndex
  BucketsWithinConstantCapacity
  Routed
  PhaseInv
  NoPanic
  NoInternalError
  IdsBounded
PROPERTIES
  BuildKeepsItems
  RejectedChangesNothing
  MetricChange
  OthersUntouched
CHECK_DEADLOCK FALSE
