------------------------------ MODULE TraceTxn -------------------------------
(***************************************************************************)
(* Validation of real multi-threaded runs (one writer, several readers) and *)
(* of recoveries after a kill, against the bounds justified by Txn.tla and  *)
(* the structural / search predicates of Store.tla, Forest.tla, Search.tla. *)
(* Events are totally ordered by one global atomic counter in the harness.  *)
(*                                                                          *)
(*  W.CommitCall(v, st)  the writer is about to commit version v whose      *)
(*                       abstract state (decoded from its own dump) is st   *)
(*  W.CommitReturn(v)    W.Abort(marker)                                    *)
(*  R.BeginCall(r) R.BeginReturn(r) R.Observe(r, v, st, open, q) R.End(r)   *)
(*  C.Version(v, st)     golden run of a crash history                      *)
(*  C.Recovered(acked, inflight, v, st, open, q)                            *)
(***************************************************************************)
EXTENDS Obs, Json, IOUtils

Rec == ndJsonDeserialize(IOEnv.TRACE)

VARIABLES l, vers, started, finished, lo, hi, seen
tvars == <<l, vers, started, finished, lo, hi, seen>>

MaxS(S) == IF S = {} THEN 0 ELSE CHOOSE x \in S : \A y \in S : y <= x
NoSide(p, x) == "U"

Report(e, bad) ==
  \A v \in bad : PrintT("VIOL|" \o ToString(e.h) \o "|" \o ToString(e.seq) \o "|" \o ToString(l) \o "|" \o v[1] \o "|" \o v[2] \o "|" \o e.ev)
IsEv(name) == l <= Len(Rec) /\ Rec[l].ev = name

\* a complete, searchable version: what a reader (or a recovery) must find
\* (a version committed without a build has pending updates: it must demand a build, C06, and nothing more
\* is asked of its forest)
CompleteDefects(e, ix, prop) ==
  (IF e.open # OpenRes(ix, ix.metric) THEN {<<prop, "open_gives_" \o e.open \o "_for_a_version_that_should_give_" \o OpenRes(ix, ix.metric)>>} ELSE {})
  \cup (IF e.st.problems # <<>> \/ e.st.leafw_bad # 0 THEN {<<prop, "layout_problem">>} ELSE {})
  \cup (IF OpenRes(ix, ix.metric) # "Ok" THEN {}
        ELSE {<<prop, "forest_" \o d>> : d \in ForestDefects(ix.nodes, ix.meta.roots, Live(ix), ix.meta.items)}
             \cup {<<prop, "search_" \o d[2]>> : d \in SearchDefects(e.q, ix, ix.nodes, NoSide)})

Reset ==
  /\ (IsEv("T.Reset") \/ IsEv("C.Reset"))
  /\ vers' = <<>> /\ started' = {} /\ finished' = {}
  /\ lo' = [r \in 1 .. Rec[l].readers |-> 0] /\ hi' = [r \in 1 .. Rec[l].readers |-> 0]
  /\ seen' = [r \in 1 .. Rec[l].readers |-> -1]
  /\ l' = l + 1

CommitCall ==
  /\ IsEv("W.CommitCall")
  /\ LET e == Rec[l] IN
     /\ vers' = (e.v :> JIndex(e.st)) @@ vers
     /\ started' = started \cup {e.v}
  /\ l' = l + 1 /\ UNCHANGED <<finished, lo, hi, seen>>
CommitReturn ==
  /\ IsEv("W.CommitReturn")
  /\ finished' = finished \cup {Rec[l].v}
  /\ l' = l + 1 /\ UNCHANGED <<vers, started, lo, hi, seen>>
WAbort ==
  /\ (IsEv("W.Abort") \/ IsEv("W.BuildFailed"))
  /\ (IsEv("W.BuildFailed") => Report(Rec[l], {<<"C08", "writer_build_failed">>}))
  /\ l' = l + 1 /\ UNCHANGED <<vers, started, finished, lo, hi, seen>>

BeginCall ==
  /\ IsEv("R.BeginCall")
  /\ lo' = [lo EXCEPT ![Rec[l].r] = MaxS(finished)]
  /\ seen' = [seen EXCEPT ![Rec[l].r] = -1]
  /\ l' = l + 1 /\ UNCHANGED <<vers, started, finished, hi>>
BeginReturn ==
  /\ IsEv("R.BeginReturn")
  /\ hi' = [hi EXCEPT ![Rec[l].r] = MaxS(started)]
  /\ l' = l + 1 /\ UNCHANGED <<vers, started, finished, lo, seen>>
Observe ==
  /\ IsEv("R.Observe")
  /\ LET e == Rec[l]
         r == e.r
         ix == JIndex(e.st)
         bad ==
           (IF e.v < 0 THEN {<<"C08", "reader_saw_an_aborted_write">>} ELSE {}) \cup
           (IF e.v > 0 /\ e.v \notin started THEN {<<"C08", "reader_saw_an_uncommitted_write">>} ELSE {}) \cup
           (IF e.v >= 0 /\ e.v < lo[r] THEN {<<"C08", "reader_missed_a_commit_that_returned_before_it_began">>} ELSE {}) \cup
           (IF e.v > hi[r] THEN {<<"C08", "reader_saw_a_commit_called_after_it_began">>} ELSE {}) \cup
           (IF seen[r] # -1 /\ seen[r] # e.v THEN {<<"C08", "snapshot_changed_under_the_reader">>} ELSE {}) \cup
           (IF e.v > 0 /\ e.v \in DOMAIN vers /\ ix # vers[e.v] THEN {<<"C08", "reader_sees_a_mixture_not_the_committed_version">>} ELSE {}) \cup
           (IF e.v = 0 /\ (Live(ix) # {} \/ ix.nodes # EmptyFn \/ ix.meta # NoMeta) THEN {<<"C08", "reader_sees_data_before_any_commit">>} ELSE {}) \cup
           (IF e.v > 0 THEN CompleteDefects(e, ix, "C08") ELSE {}) \cup
           \* what the public API answers on this thread's snapshot (item set, vectors, iteration, reader accessors)
           (IF e.v > 0 /\ "obs" \in DOMAIN e THEN {<<"C08", "reader_thread_" \o d[2]>> : d \in ObsDefects(e.obs, ix)} ELSE {})
     IN /\ Report(e, bad)
        /\ seen' = [seen EXCEPT ![r] = e.v]
  /\ l' = l + 1 /\ UNCHANGED <<vers, started, finished, lo, hi>>
REnd ==
  /\ IsEv("R.End")
  /\ l' = l + 1 /\ UNCHANGED <<vers, started, finished, lo, hi, seen>>

\* ---- crash recovery (C09)
Version ==
  /\ IsEv("C.Version")
  /\ vers' = (Rec[l].v :> JIndex(Rec[l].st)) @@ vers
  /\ l' = l + 1 /\ UNCHANGED <<started, finished, lo, hi, seen>>
Recovered ==
  /\ IsEv("C.Recovered")
  /\ LET e == Rec[l]
         ix == JIndex(e.st)
         bad ==
           (IF e.v # e.acked /\ ~(e.inflight > 0 /\ e.v = e.inflight)
            THEN {<<"C09", "recovered_neither_the_acknowledged_nor_the_in_flight_version">>} ELSE {}) \cup
           (IF e.v \in DOMAIN vers /\ ix # vers[e.v] THEN {<<"C09", "recovered_state_is_a_mixture">>} ELSE {}) \cup
           (IF e.v > 0 /\ e.v \notin DOMAIN vers THEN {<<"C09", "recovered_unknown_version">>} ELSE {}) \cup
           (IF e.v = 0 /\ (Live(ix) # {} \/ ix.nodes # EmptyFn \/ ix.meta # NoMeta) THEN {<<"C09", "data_without_a_commit">>} ELSE {}) \cup
           (IF e.v > 0 THEN CompleteDefects(e, ix, "C09") ELSE {}) \cup
           (IF e.foreign # 0 THEN {<<"C09", "stray_keys_after_recovery">>} ELSE {}) \cup
           (IF e.tmp_left # 0 THEN {<<"C09", "files_left_in_the_temp_directory_by_the_killed_process">>} ELSE {})
     IN Report(e, bad)
  /\ l' = l + 1 /\ UNCHANGED <<vers, started, finished, lo, hi, seen>>

\* a new process continued the history after the recovery: it must reach the golden run's last version
Resumed ==
  /\ IsEv("C.Resumed")
  /\ LET e == Rec[l]
         ix == JIndex(e.st)
         bad ==
           (IF ~e.exit_ok THEN {<<"C09", "process_resumed_after_the_crash_failed">>} ELSE {}) \cup
           (IF e.v # e.expect THEN {<<"C09", "resumed_history_did_not_reach_its_last_version">>} ELSE {}) \cup
           (IF e.v \in DOMAIN vers /\ ix # vers[e.v] THEN {<<"C09", "state_after_resuming_differs_from_the_uninterrupted_run">>} ELSE {}) \cup
           (IF e.v > 0 THEN CompleteDefects(e, ix, "C09") ELSE {})
     IN Report(e, bad)
  /\ l' = l + 1 /\ UNCHANGED <<vers, started, finished, lo, hi, seen>>

\* the uninterrupted run of a kill history (or one of its recoveries) panicked inside arroy: there is no version to compare
Failed ==
  /\ IsEv("C.Failed")
  /\ Report(Rec[l], {<<"C09", "run_panicked_in_the_library">>, <<"C08", "run_panicked_in_the_library">>})
  /\ l' = l + 1 /\ UNCHANGED <<vers, started, finished, lo, hi, seen>>

TraceInit == l = 1 /\ vers = <<>> /\ started = {} /\ finished = {} /\ lo = <<>> /\ hi = <<>> /\ seen = <<>>
TraceNext == Reset \/ CommitCall \/ CommitReturn \/ WAbort \/ BeginCall \/ BeginReturn \/ Observe \/ REnd \/ Version \/ Recovered \/ Resumed \/ Failed
TraceSpec == TraceInit /\ [][TraceNext]_tvars
TraceAccepted ==
  LET d == TLCGet("stats").diameter IN
  IF d = Len(Rec) + 1 THEN TRUE ELSE Print(<<"STUCK", d, IF d <= Len(Rec) THEN Rec[d].ev ELSE "eof">>, FALSE)
=============================================================================
