SPECIFICATION Spec
CONSTANTS
  Ids = {1, 2, 3}
  Data = {"x", "y"}
  MaxOps = 3
  FilterDeleted = TRUE
INVARIANTS
  BatchEqualsSequential
  RemovedStayRemoved
  UntouchedUnchanged
  RenameMoves
CHECK_DEADLOCK FALSE
