-------------------------------- MODULE Keys ---------------------------------
(***************************************************************************)
(* The key layout (src/key.rs, src/node_id.rs; DESIGN.md Appendix A) and    *)
(* the theorems C07, C16 and C19 rest on:                                   *)
(*   - byte order of encoded keys = (index, kind, id) order,                 *)
(*     with metadata < updated < tree < item inside an index;                *)
(*   - the keys of two different indexes are disjoint, contiguous intervals; *)
(*   - an (index) or (index, kind) prefix scan, and the closed range          *)
(*     Tree(0) .. Tree(2^32-1) used by the single-bucket shortcut, select     *)
(*     exactly the keys of that index (and kind);                             *)
(*   - "above every key of the database" (append) is the abstract             *)
(*     AboveAll of Arroy.tla.                                                 *)
(* TLC evaluates them over the boundary lattice of C16 (MC_Keys.cfg).        *)
(***************************************************************************)
EXTENDS KeyOps

CONSTANTS Indexes, Ids
\* the boundary lattice of C16 for ids: 0, 1, 255, 256, 2^16, 2^24, 2^31, 2^32-1 (MC_Keys.cfg: Ids <- BoundaryIds)
BoundaryIds == {<<0, 0>>, <<0, 1>>, <<0, 255>>, <<0, 256>>, <<1, 0>>, <<256, 0>>, <<32768, 0>>, <<65535, 65535>>}
Tuples == Indexes \X Kinds \X Ids

OrderIsomorphism ==
  \A a, b \in Tuples : LexLess(Enc(a[1], a[2], a[3]), Enc(b[1], b[2], b[3])) <=> TupleLess(a, b)
RoundTrip ==
  \A a \in Tuples : LET d == Dec(Enc(a[1], a[2], a[3])) IN d.index = a[1] /\ d.kind = a[2] /\ d.id = a[3]
PrefixSelectsIndex ==
  \A i \in Indexes : \A a \in Tuples : IsPrefix(PrefixIndex(i), Enc(a[1], a[2], a[3])) <=> a[1] = i
PrefixSelectsKind ==
  \A i \in Indexes, k \in Kinds : \A a \in Tuples :
     IsPrefix(PrefixKind(i, k), Enc(a[1], a[2], a[3])) <=> (a[1] = i /\ a[2] = k)
\* the closed range Tree(i, 0) ..= Tree(i, 2^32-1) of clear_db_and_create_a_single_leaf
TreeRangeSelectsTrees ==
  \A i \in Indexes : \A a \in Tuples :
     LET e == Enc(a[1], a[2], a[3])
         lo == Enc(i, KTree, <<0, 0>>)
         hi == Enc(i, KTree, <<65535, 65535>>)
     IN (~LexLess(e, lo) /\ ~LexLess(hi, e)) <=> (a[1] = i /\ a[2] = KTree)
\* indexes are contiguous intervals: nothing of another index lies between two keys of one index
IndexesAreIntervals ==
  \A a, b, c \in Tuples :
     (a[1] = c[1] /\ TupleLess(a, b) /\ TupleLess(b, c)) => b[1] = a[1]
\* append (C19): item keys are the last kind of an index, so "above every key of the database" is:
\* no key at all in a higher index, and no item of the same index with an id >= the new one
ItemIsLastKind == \A k \in Kinds : k <= KItem
AppendRule ==
  \A a, b \in Tuples :
     LexLess(Enc(a[1], a[2], a[3]), Enc(b[1], KItem, b[3]))
       <=> (a[1] < b[1] \/ (a[1] = b[1] /\ (a[2] < KItem \/ IdLess(a[3], b[3]))))

ASSUME OrderIsomorphism
ASSUME RoundTrip
ASSUME PrefixSelectsIndex
ASSUME PrefixSelectsKind
ASSUME TreeRangeSelectsTrees
ASSUME IndexesAreIntervals
ASSUME ItemIsLastKind /\ AppendRule

VARIABLE dummy
Init == dummy = 0
Next == UNCHANGED dummy
Spec == Init /\ [][Next]_dummy
=============================================================================
