------------------------------- MODULE TLAPS --------------------------------

(* Backend pragmas. *)


(***************************************************************************)
(* Each of these pragmas can be cited with a BY or a USE.  The pragma that *)
(* is added to the context of an obligation most recently is the one whose *)
(* effects are triggered.                                                  *)
(***************************************************************************)

(***************************************************************************)
(* The following pragmas should be used only as a last resource.  They are *)
(* dependent upon the particular backend provers, and are unlikely to have *)
(* any effect if the set of backend provers changes.  Moreover, they are   *)
(* meaningless to a reader of the proof.                                   *)
(***************************************************************************)


(**************************************************************************)
(* Backend pragma: use the SMT solver for arithmetic.                     *)
(*                                                                        *)
(* This method exists under this name for historical reasons.             *)
(**************************************************************************)

SimpleArithmetic == TRUE (*{ by (prover:"smt3") }*)


(**************************************************************************)
(* Backend pragma: SMT solver                                             *)
(*                                                                        *)
(* This method translates the proof obligation to SMTLIB2. The supported  *)
(* fragment includes first-order logic, set theory, functions and         *)
(* records.                                                               *)
(* SMT calls the smt-solver with the default timeout of 5 seconds         *)
(* while SMTT(n) calls the smt-solver with a timeout of n seconds.        *)
(*                                                                        *)
(* SMTT also accepts a string argument of the form "rN" to bound the      *)
(* underlying Z3 solver by a deterministic `rlimit` budget instead of a    *)
(* wall-clock timeout, e.g. SMTT("r5"). N is a multiple of a fixed base    *)
(* resource count, so a small readable budget like "r5" is meaningful.     *)
(* Unlike a wall-clock timeout, an `rlimit` budget does not depend on CPU  *)
(* speed or load, so the proof's pass/fail outcome reproduces on any       *)
(* machine and every rerun (for a fixed Z3 build); how long it takes to    *)
(* consume the budget still varies by machine. This is Z3-specific.        *)
(**************************************************************************)

SMT == TRUE (*{ by (prover:"smt3") }*)
SMTT(X) == TRUE (*{ by (prover:"smt3"; timeout:@) }*)


(**************************************************************************)
(* Backend pragma: CVC4 SMT solver                                        *)
(*                                                                        *)
(* These methods translate the proof obligation to SMTLIB2 and call CVC4. *)
(**************************************************************************)

(* The CVC3* methods are here for backward compatibility. They call CVC4. *)
CVC3 == TRUE (*{ by (prover: "cvc33") }*)
CVC3T(X) == TRUE (*{ by (prover:"cvc33"; timeout:@) }*)

CVC4 == TRUE (*{ by (prover: "cvc33") }*)
CVC4T(X) == TRUE (*{ by (prover:"cvc33"; timeout:@) }*)


(**************************************************************************)
(* Backend pragma: Yices SMT solver                                       *)
(*                                                                        *)
(* This method translates the proof obligation to Yices native language.  *)
(**************************************************************************)

Yices == TRUE (*{ by (prover: "yices3") }*)
YicesT(X) == TRUE (*{ by (prover:"yices3"; timeout:@) }*)

(**************************************************************************)
(* Backend pragma: veriT SMT solver                                       *)
(*                                                                        *)
(* This method translates the proof obligation to SMTLIB2 and calls veriT.*)
(**************************************************************************)

veriT == TRUE (*{ by (prover: "verit") }*)
veriTT(X) == TRUE (*{ by (prover:"verit"; timeout:@) }*)

(**************************************************************************)
(* Backend pragma: Zipperposition solver                                  *)
(*                                                                        *)
(* This method translates the proof obligation to TPTP and                *)
(* calls Zipperposition.                                                  *)
(**************************************************************************)

Zipper == TRUE (*{ by (prover: "zipper") }*)
ZipperT(X) == TRUE (*{ by (prover:"zipper"; timeout:@) }*)

(**************************************************************************)
(* Backend pragma: Z3 SMT solver                                          *)
(*                                                                        *)
(* This method translates the proof obligation to SMTLIB2 and calls Z3.   *)
(* Z3 is used by default but you can also explicitly call it.             *)
(* Z3T(n) bounds Z3 by a wall-clock timeout of n seconds, while Z3T("rN")  *)
(* bounds it by a deterministic `rlimit` budget of N base units, which      *)
(* reproduces the same outcome on any machine (see SMTT).                   *)
(**************************************************************************)

Z3 == TRUE (*{ by (prover: "z33") }*)
Z3T(X) == TRUE (*{ by (prover:"z33"; timeout:@) }*)

(**************************************************************************)
(* Backend pragma: SPASS superposition prover                             *)
(*                                                                        *)
(* This method translates the proof obligation to the DFG format language *)
(* supported by the ATP SPASS. The translation is based on the SMT one.   *)
(**************************************************************************)

Spass == TRUE (*{ by (prover: "spass") }*)
SpassT(X) == TRUE (*{ by (prover:"spass"; timeout:@) }*)

(**************************************************************************)
(* Backend pragma: The PTL propositional linear time temporal logic       *)
(* prover.  It currently is the LS4 backend.                              *)
(*                                                                        *)
(* This method translates the negetation of the proof obligation to       *)
(* Seperated Normal Form (TRP++ format) and checks for unsatisfiability   *)
(**************************************************************************)

LS4 == TRUE (*{ by (prover: "ls4") }*)
LS4T(X) == TRUE (*{ by (prover: "ls4"; timeout:@) }*)
PTL == TRUE (*{ by (prover: "ls4") }*)

(**************************************************************************)
(* Backend pragma: Zenon with different timeouts (default is 10 seconds)  *)
(*                                                                        *)
(**************************************************************************)

Zenon == TRUE (*{ by (prover:"zenon") }*)
ZenonT(X) == TRUE (*{ by (prover:"zenon"; timeout:@) }*)

(********************************************************************)
(* Backend pragma: Isabelle with different timeouts and tactics     *)
(*  (default is 30 seconds/auto)                                    *)
(********************************************************************)

Isa == TRUE (*{ by (prover:"isabelle") }*)
IsaT(X) ==  TRUE (*{ by (prover:"isabelle"; timeout:@) }*)
IsaM(X) ==  TRUE (*{ by (prover:"isabelle"; tactic:@) }*)
IsaMT(X,Y) ==  TRUE (*{ by (prover:"isabelle"; tactic:@; timeout:@) }*)

(***************************************************************************)
(* The following theorem expresses the (useful implication of the) law of  *)
(* set extensionality, which can be written as                             *)
(*                                                                         *)
(*    THEOREM  \A S, T : (S = T) <=> (\A x : (x \in S) <=> (x \in T))      *)
(*                                                                         *)
(* Theorem SetExtensionality is sometimes required by the SMT backend for  *)
(* reasoning about sets. It is usually counterproductive to include        *)
(* theorem SetExtensionality in a BY clause for the Zenon or Isabelle      *)
(* backends. Instead, use the pragma IsaWithSetExtensionality to instruct  *)
(* the Isabelle backend to use the rule of set extensionality.             *)
(***************************************************************************)
IsaWithSetExtensionality == TRUE
           (*{ by (prover:"isabelle"; tactic:"(auto intro: setEqualI)")}*)

THEOREM SetExtensionality == \A S,T : (\A x : x \in S <=> x \in T) => S = T
OBVIOUS

(***************************************************************************)
(* The following theorem is needed to deduce NotInSetS \notin SetS from    *)
(* the definition                                                          *)
(*                                                                         *)
(*   NotInSetS == CHOOSE v : v \notin SetS                                 *)
(***************************************************************************)
THEOREM NoSetContainsEverything == \A S : \E x : x \notin S
OBVIOUS (*{by (isabelle "(auto intro: inIrrefl)")}*)
-----------------------------------------------------------------------------



(********************************************************************)
(********************************************************************)
(********************************************************************)


(********************************************************************)
(* Old versions of Zenon and Isabelle pragmas below                 *)
(* (kept for compatibility)                                         *)
(********************************************************************)


(**************************************************************************)
(* Backend pragma: Zenon with different timeouts (default is 10 seconds)  *)
(*                                                                        *)
(**************************************************************************)

SlowZenon == TRUE (*{ by (prover:"zenon"; timeout:20) }*)
SlowerZenon == TRUE (*{ by (prover:"zenon"; timeout:40) }*)
VerySlowZenon == TRUE (*{ by (prover:"zenon"; timeout:80) }*)
SlowestZenon == TRUE (*{ by (prover:"zenon"; timeout:160) }*)



(********************************************************************)
(* Backend pragma: Isabelle's automatic search ("auto")             *)
(*                                                                  *)
(* This pragma bypasses Zenon. It is useful in situations involving *)
(* essentially simplification and equational reasoning.             *)
(* Default imeout for all isabelle tactics is 30 seconds.           *)
(********************************************************************)
Auto == TRUE (*{ by (prover:"isabelle"; tactic:"auto") }*)
SlowAuto == TRUE (*{ by (prover:"isabelle"; tactic:"auto"; timeout:120) }*)
SlowerAuto == TRUE (*{ by (prover:"isabelle"; tactic:"auto"; timeout:480) }*)
SlowestAuto == TRUE (*{ by (prover:"isabelle"; tactic:"auto"; timeout:960) }*)

(********************************************************************)
(* Backend pragma: Isabelle's "force" tactic                        *)
(*                                                                  *)
(* This pragma bypasses Zenon. It is useful in situations involving *)
(* quantifier reasoning.                                            *)
(********************************************************************)
Force == TRUE (*{ by (prover:"isabelle"; tactic:"force") }*)
SlowForce == TRUE (*{ by (prover:"isabelle"; tactic:"force"; timeout:120) }*)
SlowerForce == TRUE (*{ by (prover:"isabelle"; tactic:"force"; timeout:480) }*)
SlowestForce == TRUE (*{ by (prover:"isabelle"; tactic:"force"; timeout:960) }*)

(***********************************************************************)
(* Backend pragma: Isabelle's "simplification" tactics                 *)
(*                                                                     *)
(* These tactics simplify the goal before running one of the automated *)
(* tactics. They are often necessary for obligations involving record  *)
(* or tuple projections. Use the SimplfyAndSolve tactic unless you're  *)
(* sure you can get away with just Simplification                      *)
(***********************************************************************)
SimplifyAndSolve        == TRUE
    (*{ by (prover:"isabelle"; tactic:"clarsimp auto?") }*)
SlowSimplifyAndSolve    == TRUE
    (*{ by (prover:"isabelle"; tactic:"clarsimp auto?"; timeout:120) }*)
SlowerSimplifyAndSolve  == TRUE
    (*{ by (prover:"isabelle"; tactic:"clarsimp auto?"; timeout:480) }*)
SlowestSimplifyAndSolve == TRUE
    (*{ by (prover:"isabelle"; tactic:"clarsimp auto?"; timeout:960) }*)

Simplification == TRUE (*{ by (prover:"isabelle"; tactic:"clarsimp") }*)
SlowSimplification == TRUE
    (*{ by (prover:"isabelle"; tactic:"clarsimp"; timeout:120) }*)
SlowerSimplification  == TRUE
    (*{ by (prover:"isabelle"; tactic:"clarsimp"; timeout:480) }*)
SlowestSimplification == TRUE
    (*{ by (prover:"isabelle"; tactic:"clarsimp"; timeout:960) }*)

(**************************************************************************)
(* Backend pragma: Isabelle's tableau prover ("blast")                    *)
(*                                                                        *)
(* This pragma bypasses Zenon and uses Isabelle's built-in theorem        *)
(* prover, Blast. It is almost never better than Zenon by itself, but     *)
(* becomes very useful in combination with the Auto pragma above. The     *)
(* AutoBlast pragma first attempts Auto and then uses Blast to prove what *)
(* Auto could not prove. (There is currently no way to use Zenon on the   *)
(* results left over from Auto.)                                          *)
(**************************************************************************)
Blast == TRUE (*{ by (prover:"isabelle"; tactic:"blast") }*)
SlowBlast == TRUE (*{ by (prover:"isabelle"; tactic:"blast"; timeout:120) }*)
SlowerBlast == TRUE (*{ by (prover:"isabelle"; tactic:"blast"; timeout:480) }*)
SlowestBlast == TRUE (*{ by (prover:"isabelle"; tactic:"blast"; timeout:960) }*)

AutoBlast == TRUE (*{ by (prover:"isabelle"; tactic:"auto, blast") }*)


(**************************************************************************)
(* Backend pragmas: multi-back-ends                                       *)
(*                                                                        *)
(* These pragmas just run a bunch of back-ends one after the other in the *)
(* hope that one will succeed. This saves time and effort for the user at *)
(* the expense of computation time.                                       *)
(**************************************************************************)

(* CVC3 goes first because it's bundled with TLAPS, then the other SMT
   solvers are unlikely to succeed if CVC3 fails, so we run zenon and
   Isabelle before them. *)
AllProvers == TRUE (*{
    by (prover:"cvc33")
    by (prover:"zenon")
    by (prover:"isabelle"; tactic:"auto")
    by (prover:"spass")
    by (prover:"smt3")
    by (prover:"yices3")
    by (prover:"verit")
    by (prover:"z33")
    by (prover:"isabelle"; tactic:"force")
    by (prover:"isabelle"; tactic:"(auto intro: setEqualI)")
    by (prover:"isabelle"; tactic:"clarsimp auto?")
    by (prover:"isabelle"; tactic:"clarsimp")
    by (prover:"isabelle"; tactic:"auto, blast")
  }*)
AllProversT(X) == TRUE (*{
    by (prover:"cvc33"; timeout:@)
    by (prover:"zenon"; timeout:@)
    by (prover:"isabelle"; tactic:"auto"; timeout:@)
    by (prover:"spass"; timeout:@)
    by (prover:"smt3"; timeout:@)
    by (prover:"yices3"; timeout:@)
    by (prover:"verit"; timeout:@)
    by (prover:"z33"; timeout:@)
    by (prover:"isabelle"; tactic:"force"; timeout:@)
    by (prover:"isabelle"; tactic:"(auto intro: setEqualI)"; timeout:@)
    by (prover:"isabelle"; tactic:"clarsimp auto?"; timeout:@)
    by (prover:"isabelle"; tactic:"clarsimp"; timeout:@)
    by (prover:"isabelle"; tactic:"auto, blast"; timeout:@)
  }*)

AllSMT == TRUE (*{
    by (prover:"cvc33")
    by (prover:"smt3")
    by (prover:"yices3")
    by (prover:"verit")
    by (prover:"z33")
  }*)
AllSMTT(X) == TRUE (*{
    by (prover:"cvc33"; timeout:@)
    by (prover:"smt3"; timeout:@)
    by (prover:"yices3"; timeout:@)
    by (prover:"verit"; timeout:@)
    by (prover:"z33"; timeout:@)
  }*)

AllIsa == TRUE (*{
    by (prover:"isabelle"; tactic:"auto")
    by (prover:"isabelle"; tactic:"force")
    by (prover:"isabelle"; tactic:"(auto intro: setEqualI)")
    by (prover:"isabelle"; tactic:"clarsimp auto?")
    by (prover:"isabelle"; tactic:"clarsimp")
    by (prover:"isabelle"; tactic:"auto, blast")
  }*)
AllIsaT(X) == TRUE (*{
    by (prover:"isabelle"; tactic:"auto"; timeout:@)
    by (prover:"isabelle"; tactic:"force"; timeout:@)
    by (prover:"isabelle"; tactic:"(auto intro: setEqualI)"; timeout:@)
    by (prover:"isabelle"; tactic:"clarsimp auto?"; timeout:@)
    by (prover:"isabelle"; tactic:"clarsimp"; timeout:@)
    by (prover:"isabelle"; tactic:"auto, blast"; timeout:@)
  }*)


(**************************************************************************)
(* The pragma ExpandEnabled invokes expansion of the operator ENABLED.    *)
(*                                                                        *)
(* The pragma ExpandCdot invokes expansion of the operator \cdot.         *)
(*                                                                        *)
(* The pragma AutoUSE invokes automated expansion of definitions,         *)
(* for both of ExpandEnabled and ExpandCdot, when each is present.        *)
(*                                                                        *)
(* The pragma Lambdify invokes expansion of the operators                 *)
(* ENABLED and \cdot to an intermediate form with bound VARIABLES,        *)
(* which is a form before introducing rigid quantifiers.                  *)
(* The pragma Lambdify is sound for occurrences of ENABLED and \cdot      *)
(* that are not nested.                                                   *)
(**************************************************************************)
ExpandENABLED == TRUE  (*{ by (prover:"expandenabled") }*)
ExpandCdot == TRUE  (*{ by (prover:"expandcdot") }*)
AutoUSE == TRUE  (*{ by (prover:"autouse") }*)
Lambdify == TRUE  (*{ by (prover:"lambdify") }*)
ENABLEDaxioms == TRUE  (*{ by (prover:"enabledaxioms") }*)
LevelComparison == TRUE  (*{ by (prover:"levelcomparison") }*)

(* The operators EnabledWrapper and CdotWrapper occur in an intermediate  *)
(* representation within TLAPM.                                           *)
EnabledWrapper(Op(_)) == FALSE
CdotWrapper(Op(_)) == FALSE

(***************************************************************************)
(* The following may be used in a `BY ONLY ThmName` for unit testing the   *)
(* triviality checks in TLAPM.                                             *)
(***************************************************************************)
Trivial == TRUE  (*{ by (prover:"trivial") }*)


=============================================================================

The material below is obsolete: the TLA proof rules below are superseded by
the PTL decision procedure, and their formulation is unsound for the semantics
of temporal reasoning that TLAPS adopts.

----------------------------------------------------------------------------
(***************************************************************************)
(*                           TEMPORAL LOGIC                                *)
(*                                                                         *)
(* The following rules are intended to be used when TLAPS handles temporal *)
(* logic.  They will not work now.  Moreover when temporal reasoning is    *)
(* implemented, these rules may be changed or omitted, and additional      *)
(* rules will probably be added.  However, they are included mainly so     *)
(* their names will be defined, preventing the use of identifiers that are *)
(* likely to produce name clashes with future versions of this module.     *)
(***************************************************************************)


(***************************************************************************)
(* The following proof rules (and their names) are from the paper "The     *)
(* Temporal Logic of Actions".                                             *)
(***************************************************************************)
THEOREM RuleTLA1 == ASSUME STATE P, STATE f,
                           P /\ (f' = f) => P'
                    PROVE  []P <=> P /\ [][P => P']_f

THEOREM RuleTLA2 == ASSUME STATE P, STATE Q, STATE f, STATE g,
                           ACTION A, ACTION B,
                           P /\ [A]_f => Q /\ [B]_g
                    PROVE  []P /\ [][A]_f => []Q /\ [][B]_g

THEOREM RuleINV1 == ASSUME STATE I, STATE F,  ACTION N,
                           I /\ [N]_F => I'
                    PROVE  I /\ [][N]_F => []I

THEOREM RuleINV2 == ASSUME STATE I, STATE f, ACTION N
                    PROVE  []I => ([][N]_f <=> [][N /\ I /\ I']_f)

THEOREM RuleWF1 == ASSUME STATE P, STATE Q, STATE f, ACTION N, ACTION A,
                          P /\ [N]_f => (P' \/ Q'),
                          P /\ <<N /\ A>>_f => Q',
                          P => ENABLED <<A>>_f
                   PROVE  [][N]_f /\ WF_f(A) => (P ~> Q)

THEOREM RuleSF1 == ASSUME STATE P, STATE Q, STATE f,
                          ACTION N, ACTION A, TEMPORAL F,
                          P /\ [N]_f => (P' \/ Q'),
                          P /\ <<N /\ A>>_f => Q',
                          []P /\ [][N]_f /\ []F => <> ENABLED <<A>>_f
                   PROVE  [][N]_f /\ SF_f(A) /\ []F => (P ~> Q)

(***************************************************************************)
(* The rules WF2 and SF2 in "The Temporal Logic of Actions" are obtained   *)
(* from the following two rules by the following substitutions: `.         *)
(*                                                                         *)
(*          ___        ___         _______________                         *)
(*      M <- M ,   g <- g ,  EM <- ENABLED <<M>>_g       .'                *)
(***************************************************************************)
THEOREM RuleWF2 == ASSUME STATE P, STATE f, STATE g, STATE EM,
                          ACTION A, ACTION B, ACTION N, ACTION M,
                          TEMPORAL F,
                          <<N /\ B>>_f => <<M>>_g,
                          P /\ P' /\ <<N /\ A>>_f /\ EM => B,
                          P /\ EM => ENABLED A,
                          [][N /\ ~B]_f /\ WF_f(A) /\ []F /\ <>[]EM => <>[]P
                   PROVE  [][N]_f /\ WF_f(A) /\ []F => []<><<M>>_g \/ []<>(~EM)

THEOREM RuleSF2 == ASSUME STATE P, STATE f, STATE g, STATE EM,
                          ACTION A, ACTION B, ACTION N, ACTION M,
                          TEMPORAL F,
                          <<N /\ B>>_f => <<M>>_g,
                          P /\ P' /\ <<N /\ A>>_f /\ EM => B,
                          P /\ EM => ENABLED A,
                          [][N /\ ~B]_f /\ SF_f(A) /\ []F /\ []<>EM => <>[]P
                   PROVE  [][N]_f /\ SF_f(A) /\ []F => []<><<M>>_g \/ <>[](~EM)


(***************************************************************************)
(* The following rule is a special case of the general temporal logic      *)
(* proof rule STL4 from the paper "The Temporal Logic of Actions".  The    *)
(* general rule is for arbitrary temporal formulas F and G, but it cannot  *)
(* yet be handled by TLAPS.                                                *)
(***************************************************************************)
THEOREM RuleInvImplication ==
  ASSUME STATE F, STATE G,
         F => G
  PROVE  []F => []G
PROOF OMITTED

(***************************************************************************)
(* The following rule is a special case of rule TLA2 from the paper "The   *)
(* Temporal Logic of Actions".                                             *)
(***************************************************************************)
THEOREM RuleStepSimulation ==
  ASSUME STATE I, STATE f, STATE g,
         ACTION M, ACTION N,
         I /\ I' /\ [M]_f => [N]_g
  PROVE  []I /\ [][M]_f => [][N]_g
PROOF OMITTED

(***************************************************************************)
(* The following may be used to invoke a decision procedure for            *)
(* propositional temporal logic.                                           *)
(***************************************************************************)
PropositionalTemporalLogic == TRUE
=============================================================================
