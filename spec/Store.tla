------------------------------- MODULE Store --------------------------------
(***************************************************************************)
(* One arroy index as an abstract value, and the effect of every public    *)
(* mutator and query on it (src/writer.rs, src/reader.rs).  An index is    *)
(*   [metric, dim, store, updated, meta, version, nodes]                   *)
(* where store maps item id -> vector token, updated is the set of ids      *)
(* touched since the last build, meta is NoMeta or [metric, dim, items,     *)
(* roots], version is NoVersion or a triple, nodes maps tree-node id ->     *)
(* node (Forest.tla).  Keys of different indexes never meet: the database   *)
(* is a function from index number to such a value (see Keys.tla for why    *)
(* the byte layout makes that true).                                        *)
(***************************************************************************)
EXTENDS Forest

NoMeta == [metric |-> "none", dim |-> 0, items |-> {}, roots |-> <<>>]
NoVersion == <<>>

EmptyIndex(metric, dim) ==
  [metric |-> metric, dim |-> dim, store |-> EmptyFn, updated |-> {},
   meta |-> NoMeta, version |-> NoVersion, nodes |-> EmptyFn]

Live(ix) == DOMAIN ix.store

\* ---- mutators -------------------------------------------------------------
\* add_item / accepted append_item: put the leaf, put the updated mark
AddOp(ix, id, tok) ==
  [ix EXCEPT !.store = (id :> tok) @@ @, !.updated = @ \cup {id}]

\* del_item: only marks when something was deleted; returns whether it existed
DelRet(ix, id) == id \in Live(ix)
DelOp(ix, id) ==
  IF id \in Live(ix)
  THEN [ix EXCEPT !.store = [j \in (DOMAIN @ \ {id}) |-> @[j]], !.updated = @ \cup {id}]
  ELSE ix

\* clear: every key of the index goes (items, marks, nodes, metadata, version)
ClearOp(ix) == EmptyIndex(ix.metric, ix.dim)

\* prepare_changing_distance: same metric => nothing; otherwise the forest and the metadata
\* go, every leaf is re-encoded (requant maps old token -> token under the new metric),
\* marks and the version record stay.
ChangeMetricOp(ix, to, requant) ==
  IF to = ix.metric THEN ix
  ELSE [ix EXCEPT !.metric = to,
                  !.store = [j \in DOMAIN @ |-> requant[@[j]]],
                  !.meta = NoMeta,
                  !.nodes = EmptyFn]

\* ---- queries ---------------------------------------------------------------
\* Reader::open under metric m
OpenRes(ix, m) ==
  CASE ix.meta = NoMeta        -> "MissingMetadata"
    [] ix.meta.metric # m      -> "UnmatchingDistance"
    [] ix.updated # {}         -> "NeedBuild"
    [] OTHER                   -> "Ok"
NeedBuildRes(ix) == ix.updated # {} \/ ix.meta = NoMeta

\* rejected calls: wrong length => dimension error, nothing changes
DimErr(ix, len) == len # ix.dim

(***************************************************************************)
(* What a successful build must establish (C01, C05, C06, C15), as a       *)
(* relation between the index before and after.  req = requested tree      *)
(* count (0 = automatic), cap = bucket capacity of this build.             *)
(* Returns the set of <<property, conjunct>> pairs that FAIL.              *)
(***************************************************************************)
BuildOkDefects(pre, post, req, cap, capConstant) ==
  LET n == Cardinality(Live(pre))
      nt == Len(post.meta.roots)
      fd == IF post.meta = NoMeta THEN {"no_metadata"}
            ELSE ForestDefects(post.nodes, post.meta.roots, Live(post), post.meta.items)
  IN  {<<"C01", d>> : d \in fd}
  \cup (IF post.store # pre.store THEN {<<"C05", "build_changed_items">>} ELSE {})
  \cup (IF post.updated # {} THEN {<<"C06", "marks_left_after_build">>} ELSE {})
  \cup (IF post.meta # NoMeta /\ post.meta.metric # pre.metric THEN {<<"C06", "built_under_other_metric">>} ELSE {})
  \cup (IF post.meta # NoMeta /\ post.meta.dim # pre.dim THEN {<<"C05", "dimension_recorded_wrong">>} ELSE {})
  \cup (IF post.metric # pre.metric \/ post.dim # pre.dim THEN {<<"C05", "index_retyped">>} ELSE {})
  \cup (IF post.meta = NoMeta THEN {}
        ELSE  (IF n = 0 /\ nt # 0 THEN {<<"C15", "empty_index_has_trees">>} ELSE {})
         \cup (IF n > 0 /\ n <= cap /\ nt # 1 THEN {<<"C15", "single_bucket_index_tree_count">>} ELSE {})
         \cup (IF n > cap /\ req # 0 /\ nt # req THEN {<<"C15", "requested_tree_count">>} ELSE {})
         \cup (IF n > cap /\ req = 0 /\ nt < 1 THEN {<<"C15", "automatic_tree_count_zero">>} ELSE {})
         \cup (IF capConstant /\ ~BucketBound(post.nodes, cap) THEN {<<"C15", "bucket_over_capacity">>} ELSE {}))
=============================================================================
