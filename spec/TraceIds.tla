------------------------------ MODULE TraceIds -------------------------------
(***************************************************************************)
(* Schedules of the real ConcurrentNodeIds::next(), recorded under the      *)
(* token-passing scheduler of the harness (hook H1: every atomic operation  *)
(* is a yield point), checked against NodeIdsOps.tla.  One line = one       *)
(* complete schedule:                                                       *)
(*   used  : ids in use when the generator was created                      *)
(*   reqs  : requests per thread                                            *)
(*   steps : <<thread, operation, current, used-count, cursor, look>> after *)
(*           each atomic step of the real code                              *)
(*   rets  : <<thread, id>> in the order the calls returned                 *)
(* Property conjunct (C13): the returned ids are pairwise different and not *)
(* in `used`.  Conformance conjuncts (DRIFT): the operation each thread      *)
(* performs and the generator's state after each step are the spec's.       *)
(***************************************************************************)
EXTENDS NodeIdsOps, Integers, Json, IOUtils

Rec == ndJsonDeserialize(IOEnv.TRACE)
VARIABLES l
JS(s) == {s[k] : k \in DOMAIN s}

RECURSIVE Replay(_, _, _)
\* returns the number of the first step that drifts from the spec (0 = none)
Replay(s, steps, k) ==
  IF k > Len(steps) THEN 0
  ELSE LET t == steps[k][1]
           s1 == Step(s, t)
       IN IF ~Enabled(s, t) \/ OpOf(s, t) # steps[k][2] THEN k
          ELSE IF s1.cur # steps[k][3] \/ s1.cnt # steps[k][4] \/ s1.sel # steps[k][5] \/ s1.look # (steps[k][6] = 1) THEN k
          ELSE Replay(s1, steps, k + 1)

RECURSIVE Final(_, _, _)
Final(s, steps, k) == IF k > Len(steps) THEN s ELSE Final(Step(s, steps[k][1]), steps, k + 1)

Sched ==
  /\ l <= Len(Rec)
  /\ LET e == Rec[l]
         used == JS(e.used)
         threads == DOMAIN e.reqs
         ids == [k \in DOMAIN e.rets |-> e.rets[k][2]]
         dup == \E a, b \in DOMAIN ids : a # b /\ ids[a] = ids[b]
         inuse == \E a \in DOMAIN ids : ids[a] \in used
         short == Len(e.rets) # e.total
         s0 == InitState(used, threads, e.reqs)
         drift == Replay(s0, e.steps, 1)
         fin == Final(s0, e.steps, 1)
         sameOut == drift # 0 \/ \A t \in threads :
                       fin.out[t] = [k \in 1 .. Len(fin.out[t]) |->
                          LET mine == SelectSeq(e.rets, LAMBDA r : r[1] = t) IN IF k <= Len(mine) THEN mine[k][2] ELSE -1]
     IN /\ (dup => PrintT("VIOL|" \o ToString(e.n) \o "|0|" \o ToString(l) \o "|C13|id_handed_out_twice|Sched"))
        /\ (inuse => PrintT("VIOL|" \o ToString(e.n) \o "|0|" \o ToString(l) \o "|C13|id_in_use_handed_out|Sched"))
        /\ (short => PrintT("VIOL|" \o ToString(e.n) \o "|0|" \o ToString(l) \o "|C13|request_did_not_return_an_id|Sched"))
        /\ (drift # 0 => PrintT("DRIFT|" \o ToString(e.n) \o "|" \o ToString(drift) \o "|" \o ToString(l) \o "|C13|step_differs_from_the_specification|Sched"))
        /\ (~sameOut => PrintT("DRIFT|" \o ToString(e.n) \o "|0|" \o ToString(l) \o "|C13|returned_ids_differ_from_the_specification|Sched"))
  /\ l' = l + 1

TraceInit == l = 1
TraceSpec == TraceInit /\ [][Sched]_l
TraceAccepted ==
  LET d == TLCGet("stats").diameter IN
  IF d = Len(Rec) + 1 THEN TRUE ELSE Print(<<"STUCK", d>>, FALSE)
=============================================================================
