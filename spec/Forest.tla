------------------------------- MODULE Forest -------------------------------
(***************************************************************************)
(* The forest of one arroy index as plain data, the validity predicates of *)
(* C01 / C04 / C15, the sequential tree-node id allocator, and the three   *)
(* tree edits of a build (delete, insert, make-tree) transcribed from      *)
(* src/writer.rs.  Everything here is a constant-level operator, so the    *)
(* very same definitions are used                                          *)
(*   - by Arroy.tla, where TLC enumerates every outcome of every edit, and *)
(*   - by TraceMain.tla, where they are evaluated on states decoded from    *)
(*     the real database.                                                  *)
(*                                                                         *)
(* Geometry enters only through Side(plane, item): "L", "R" or "U"         *)
(* (undecided: degenerate plane or zero margin).                           *)
(***************************************************************************)
EXTENDS Naturals, Integers, Sequences, FiniteSets, TLC

NoRef == <<"N", 0>>
ItemRef(i) == <<"I", i>>
TreeRef(n) == <<"T", n>>
IsItem(r) == r[1] = "I"
IsTree(r) == r[1] = "T"

\* a plane always has the same three fields so that nodes stay comparable
NoPlane == [zero |-> TRUE, right |-> {}, ms |-> <<>>]
Bucket(S) == [tag |-> "B", items |-> S, l |-> NoRef, r |-> NoRef, plane |-> NoPlane]
Split(p, l, r) == [tag |-> "S", items |-> {}, l |-> l, r |-> r, plane |-> p]
IsBucket(n) == n.tag = "B"
IsSplit(n) == n.tag = "S"

EmptyFn == <<>>
Max(S) == CHOOSE x \in S : \A y \in S : y <= x
Min(S) == CHOOSE x \in S : \A y \in S : x <= y
Range(f) == {f[x] : x \in DOMAIN f}
SeqToSet(s) == {s[k] : k \in DOMAIN s}
NoDup(s) == \A a, b \in DOMAIN s : a # b => s[a] # s[b]

\* ascending sequence of a set of integers (SequencesExt: evaluated natively by TLC)
SeqX == INSTANCE SequencesExt
SortedSeq(S) == SeqX!SetToSortSeq(S, LAMBDA a, b : a < b)

-----------------------------------------------------------------------------
(* Walking a tree.  `fuel` bounds the depth so that the walk is total even  *)
(* on corrupted forests (cycles are reported, not followed).                *)

RECURSIVE Walk(_, _, _)
Walk(nodes, ref, fuel) ==
  IF IsItem(ref) THEN [items |-> <<ref[2]>>, trees |-> <<>>, dang |-> {}, cyc |-> FALSE]
  ELSE IF ~IsTree(ref) \/ ref[2] \notin DOMAIN nodes
       THEN [items |-> <<>>, trees |-> <<>>, dang |-> {ref}, cyc |-> FALSE]
  ELSE IF fuel = 0 THEN [items |-> <<>>, trees |-> <<>>, dang |-> {}, cyc |-> TRUE]
  ELSE LET n == nodes[ref[2]] IN
       IF IsBucket(n)
       THEN [items |-> SortedSeq(n.items), trees |-> <<ref[2]>>, dang |-> {}, cyc |-> FALSE]
       ELSE LET a == Walk(nodes, n.l, fuel - 1)
                b == Walk(nodes, n.r, fuel - 1)
            IN [items |-> a.items \o b.items,
                trees |-> <<ref[2]>> \o a.trees \o b.trees,
                dang  |-> a.dang \cup b.dang,
                cyc   |-> a.cyc \/ b.cyc]

Fuel(nodes) == Cardinality(DOMAIN nodes) + 1
ItemsBelow(nodes, ref) == SeqToSet(Walk(nodes, ref, Fuel(nodes)).items)
NodesBelow(nodes, ref) == SeqToSet(Walk(nodes, ref, Fuel(nodes)).trees)

(***************************************************************************)
(* C01, conjunct by conjunct.  `roots` is a sequence of tree-node ids,     *)
(* `live` the set of stored item ids, `metaItems` the id set recorded in   *)
(* the metadata.  The result is the set of names of the violated conjuncts *)
(* (empty = valid), so a rejection says what is wrong.                     *)
(***************************************************************************)
ForestDefects(nodes, roots, live, metaItems) ==
  LET W(k) == Walk(nodes, TreeRef(roots[k]), Fuel(nodes))
      K == DOMAIN roots
  IN  (IF \E k \in K : roots[k] \notin DOMAIN nodes THEN {"root_missing"} ELSE {})
  \cup (IF ~NoDup(roots) THEN {"root_twice"} ELSE {})
  \cup (IF \E k \in K : W(k).cyc THEN {"cycle"} ELSE {})
  \cup (IF \E k \in K : W(k).dang # {} THEN {"dangling_node"} ELSE {})
  \cup (IF \E k \in K : ~(SeqToSet(W(k).items) \subseteq live) THEN {"foreign_item"} ELSE {})
  \cup (IF \E k \in K : ~(live \subseteq SeqToSet(W(k).items)) THEN {"missing_item"} ELSE {})
  \cup (IF \E k \in K : ~NoDup(W(k).items) THEN {"item_twice"} ELSE {})
  \cup (IF \E k \in K : ~NoDup(W(k).trees) THEN {"node_twice"} ELSE {})
  \cup (IF \E j, k \in K : j # k /\ SeqToSet(W(j).trees) \cap SeqToSet(W(k).trees) # {}
        THEN {"shared_node"} ELSE {})
  \cup (IF UNION {SeqToSet(W(k).trees) : k \in K} # DOMAIN nodes THEN {"orphan_node"} ELSE {})
  \cup (IF metaItems # live THEN {"meta_items"} ELSE {})

ForestValid(nodes, roots, live, metaItems) == ForestDefects(nodes, roots, live, metaItems) = {}

\* Reader::stats per tree: <<depth, dummy normals, split nodes, descendants nodes>>
MaxI(a, b) == IF a > b THEN a ELSE b
RECURSIVE TreeStats(_, _, _)
TreeStats(nodes, ref, fuel) ==
  IF IsItem(ref) \/ ~IsTree(ref) \/ ref[2] \notin DOMAIN nodes \/ fuel = 0 THEN <<1, 0, 0, 0>>
  ELSE LET n == nodes[ref[2]] IN
       IF IsBucket(n) THEN <<1, 0, 0, 1>>
       ELSE LET a == TreeStats(nodes, n.l, fuel - 1)
                b == TreeStats(nodes, n.r, fuel - 1)
            IN <<1 + MaxI(a[1], b[1]), a[2] + b[2] + (IF n.plane.zero THEN 1 ELSE 0), a[3] + b[3] + 1, a[4] + b[4]>>

\* C15: no bucket above the capacity
BucketBound(nodes, cap) ==
  \A n \in DOMAIN nodes : IsBucket(nodes[n]) => Cardinality(nodes[n].items) <= cap
LargestBucket(nodes) ==
  LET B == {Cardinality(nodes[n].items) : n \in {m \in DOMAIN nodes : IsBucket(nodes[m])}}
  IN IF B = {} THEN 0 ELSE Max(B)

(***************************************************************************)
(* C04: every stored item lies on the side of each decided plane above it  *)
(* to which its own vector is routed.  Side(plane, item) \in {"L","R","U"} *)
(* ("N" = the margin is not a finite number; treated like "U" here).       *)
(* Placement(nodes, ref) is the set of <<split node id, item, "L"|"R">>:   *)
(* below which child of which split each item is stored.                   *)
(***************************************************************************)
RECURSIVE Placement(_, _, _)
Placement(nodes, ref, fuel) ==
  IF ~IsTree(ref) \/ ref[2] \notin DOMAIN nodes \/ fuel = 0 THEN {}
  ELSE LET n == nodes[ref[2]] IN
       IF IsBucket(n) THEN {}
       ELSE  {<<ref[2], i, "L">> : i \in SeqToSet(Walk(nodes, n.l, fuel - 1).items)}
        \cup {<<ref[2], i, "R">> : i \in SeqToSet(Walk(nodes, n.r, fuel - 1).items)}
        \cup Placement(nodes, n.l, fuel - 1)
        \cup Placement(nodes, n.r, fuel - 1)

Misrouted(nodes, root, Side(_, _)) ==
  {p \in Placement(nodes, TreeRef(root), Fuel(nodes)) :
      LET s == Side(nodes[p[1]].plane, p[2]) IN s \in {"L", "R"} /\ s # p[3]}

RoutedToSelf(nodes, roots, Side(_, _)) ==
  \A k \in DOMAIN roots : Misrouted(nodes, roots[k], Side) = {}

\* does the tree lead `item` to its leaf through decided planes only?
DecidedPath(nodes, root, item, Side(_, _)) ==
  /\ item \in ItemsBelow(nodes, TreeRef(root))
  /\ \A p \in Placement(nodes, TreeRef(root), Fuel(nodes)) :
        p[2] = item => Side(nodes[p[1]].plane, item) = p[3]

-----------------------------------------------------------------------------
(* The tree-node id allocator as one thread sees it (ConcurrentNodeIds,     *)
(* sequential semantics; the concurrent one is NodeIds.tla): recycle the    *)
(* gaps below the largest used id, smallest first, then count upwards.      *)

AllocInit(used) ==
  LET last == IF used = {} THEN 0 ELSE Max(used) + 1
  IN [avail |-> SortedSeq((0 .. (last - 1)) \ used), cur |-> last]
AllocNext(a) ==
  IF a.avail # <<>> THEN [id |-> Head(a.avail), a |-> [a EXCEPT !.avail = Tail(@)]]
  ELSE [id |-> a.cur, a |-> [a EXCEPT !.cur = @ + 1]]

-----------------------------------------------------------------------------
(* Applying the staged writes of an edit (TmpNodes: to_delete, to_insert).  *)
Apply(nodes, put, del) ==
  [n \in ((DOMAIN nodes \cup DOMAIN put) \ del) |-> IF n \in DOMAIN put THEN put[n] ELSE nodes[n]]

(***************************************************************************)
(* delete_items_in_file: remove the ids D from the tree rooted at node t.  *)
(* Buckets lose D; a split whose remaining items fit in one bucket becomes  *)
(* a bucket at its own id and releases its two children; a split with an    *)
(* emptied side is replaced by its other child; otherwise it is rewritten   *)
(* iff a child reference changed.                                           *)
(***************************************************************************)
RECURSIVE DeleteFrom(_, _, _, _)
DeleteFrom(nodes, t, D, cap) ==
  LET n == nodes[t] IN
  IF IsBucket(n)
  THEN LET new == n.items \ D IN
       [ref |-> TreeRef(t), items |-> new,
        put |-> IF new # n.items THEN (t :> Bucket(new)) ELSE EmptyFn, del |-> {}]
  ELSE
    LET Ch(ref) == IF IsTree(ref) THEN DeleteFrom(nodes, ref[2], D, cap)
                   ELSE [ref |-> ref, items |-> {ref[2]} \ D, put |-> EmptyFn, del |-> {}]
        L == Ch(n.l)
        R == Ch(n.r)
        total == L.items \cup R.items
        rel(c) == IF IsTree(c.ref) THEN {c.ref[2]} ELSE {}
    IN IF Cardinality(total) <= cap
       THEN [ref |-> TreeRef(t), items |-> total,
             put |-> (t :> Bucket(total)) @@ L.put @@ R.put,
             del |-> L.del \cup R.del \cup rel(L) \cup rel(R)]
       ELSE IF L.items = {}
       THEN [ref |-> R.ref, items |-> total, put |-> L.put @@ R.put,
             del |-> L.del \cup R.del \cup rel(L) \cup {t}]
       ELSE IF R.items = {}
       THEN [ref |-> L.ref, items |-> total, put |-> L.put @@ R.put,
             del |-> L.del \cup R.del \cup rel(R) \cup {t}]
       ELSE [ref |-> TreeRef(t), items |-> total,
             put |-> (IF L.ref # n.l \/ R.ref # n.r
                      THEN (t :> Split(n.plane, L.ref, R.ref)) ELSE EmptyFn) @@ L.put @@ R.put,
             del |-> L.del \cup R.del]

(***************************************************************************)
(* The insertion phase as a RELATION between the forest before and after   *)
(* (used on recorded phases, where the routing of each item is not known): *)
(* ids of existing nodes and planes are kept, buckets only grow, a single   *)
(* item may turn into a fresh bucket that contains it, nothing else moves.  *)
(* Result: [ok, added] with the set of items that appeared below `ref`.     *)
(***************************************************************************)
RECURSIVE InsDiff(_, _, _, _, _)
InsDiff(nB, refB, nA, refA, fuel) ==
  IF fuel = 0 THEN [ok |-> FALSE, added |-> {}]
  ELSE IF IsItem(refB)
  THEN IF refA = refB THEN [ok |-> TRUE, added |-> {}]
       ELSE IF IsTree(refA) /\ refA[2] \in DOMAIN nA /\ refA[2] \notin DOMAIN nB /\ IsBucket(nA[refA[2]]) /\ refB[2] \in nA[refA[2]].items
       THEN [ok |-> nA[refA[2]].items # {refB[2]}, added |-> nA[refA[2]].items \ {refB[2]}]
       ELSE [ok |-> FALSE, added |-> {}]
  ELSE IF refA # refB \/ refB[2] \notin DOMAIN nB \/ refB[2] \notin DOMAIN nA THEN [ok |-> FALSE, added |-> {}]
  ELSE LET b == nB[refB[2]]
           a == nA[refB[2]]
       IN IF IsBucket(b)
          THEN [ok |-> IsBucket(a) /\ b.items \subseteq a.items, added |-> IF IsBucket(a) THEN a.items \ b.items ELSE {}]
          ELSE IF ~IsSplit(a) \/ a.plane # b.plane THEN [ok |-> FALSE, added |-> {}]
          ELSE LET l == InsDiff(nB, b.l, nA, a.l, fuel - 1)
                   r == InsDiff(nB, b.r, nA, a.r, fuel - 1)
               IN [ok |-> l.ok /\ r.ok /\ l.added \cap r.added = {}, added |-> l.added \cup r.added]

\* delete_items_from_trees: every root is walked into one scratch file, which is applied at the end;
\* the roots are then sorted
RECURSIVE DelAllRoots(_, _, _, _, _)
DelAllRoots(nodes, roots, k, D, cap) ==
  IF k > Len(roots) THEN [roots |-> <<>>, put |-> EmptyFn, del |-> {}]
  ELSE LET d == DeleteFrom(nodes, roots[k], D, cap)
           rest == DelAllRoots(nodes, roots, k + 1, D, cap)
       IN [roots |-> <<d.ref[2]>> \o rest.roots, put |-> d.put @@ rest.put, del |-> d.del \cup rest.del]
AfterDeleteItems(nodes, roots, D, cap) ==
  LET r == DelAllRoots(nodes, roots, 1, D, cap)
  IN [nodes |-> Apply(nodes, r.put, r.del), roots |-> SortedSeq(SeqToSet(r.roots))]

\* delete_extra_trees: while there are more trees than wanted, remove the first root (swap_remove(0): the
\* last root takes its place) together with every tree node below it
RECURSIVE AfterDeleteExtra(_, _, _)
AfterDeleteExtra(nodes, roots, target) ==
  IF Len(roots) <= target THEN [nodes |-> nodes, roots |-> roots]
  ELSE LET ts == NodesBelow(nodes, TreeRef(roots[1]))
           rest == IF Len(roots) = 1 THEN <<>> ELSE <<roots[Len(roots)]>> \o SubSeq(roots, 2, Len(roots) - 1)
       IN AfterDeleteExtra([n \in (DOMAIN nodes \ ts) |-> nodes[n]], rest, target)

(***************************************************************************)
(* Planes.  A plane is [zero, right, ms]: `zero` marks the degenerate      *)
(* plane of the random fallback, `right` is (in the model) the set of      *)
(* vector tokens on its right-hand side.  tokOf maps item id -> token.     *)
(* A zero plane divides a set arbitrarily; a normal plane by token.        *)
(***************************************************************************)
Divide(plane, S, tokOf) ==
  IF plane.zero THEN {[L |-> A, R |-> S \ A] : A \in SUBSET S}
  ELSE {[L |-> {x \in S : tokOf[x] \notin plane.right}, R |-> {x \in S : tokOf[x] \in plane.right}]}

\* the planes make_tree may pick for S: a normal plane must separate S; the random fallback
\* may divide S arbitrarily, one-sided only while `fuel` lasts (it is refilled by every real split)
SplitsOf(S, tokOf, toks, fuel, maxTrivial) ==
  LET normal == {[plane |-> [zero |-> FALSE, right |-> P, ms |-> <<>>],
                  L |-> {x \in S : tokOf[x] \notin P}, R |-> {x \in S : tokOf[x] \in P}, fuel |-> maxTrivial]
                   : P \in {Q \in SUBSET toks : \E x, y \in S : tokOf[x] \in Q /\ tokOf[y] \notin Q}}
      \* left/right mirror images of a random division are the same forest up to renaming sides
      \* of an undecided plane: only one of each pair is kept (the one with min(S) on the left,
      \* or the one-sided division to the left)
      zero == {[plane |-> NoPlane, L |-> A, R |-> S \ A, fuel |-> IF A = S THEN fuel - 1 ELSE maxTrivial]
                   : A \in {Q \in SUBSET S : Min(S) \in Q /\ (Q # S \/ fuel > 0)}}
  IN normal \cup zero

(***************************************************************************)
(* insert_items_in_file routes the new ids S down an existing tree.         *)
(* Result: a SET of outcomes (zero planes route arbitrarily), each          *)
(*   [ref, put, large, alloc].                                              *)
(* `asCoded` reproduces the pinned code's loss of the child kind (finding   *)
(* F1), kept as a switch so TLC can show the difference.                    *)
(***************************************************************************)
RECURSIVE InsertInto(_, _, _, _, _, _, _)
InsertInto(nodes, ref, S, cap, alloc, asCoded, tokOf) ==
  IF IsItem(ref)
  THEN IF S = {}
       THEN {[ref |-> ref, put |-> EmptyFn, large |-> {}, alloc |-> alloc]}
       ELSE LET nx == AllocNext(alloc)
                all == {ref[2]} \cup S
            IN {[ref   |-> IF asCoded THEN ItemRef(nx.id) ELSE TreeRef(nx.id),
                 put   |-> (nx.id :> Bucket(all)),
                 large |-> IF Cardinality(all) > cap
                           THEN (IF asCoded THEN {ref[2]} ELSE {nx.id}) ELSE {},
                 alloc |-> nx.a]}
  ELSE
    LET t == ref[2]
        n == nodes[t]
    IN IF IsBucket(n)
       THEN LET all == n.items \cup S IN
            {[ref |-> ref,
              put |-> IF all # n.items THEN (t :> Bucket(all)) ELSE EmptyFn,
              large |-> IF Cardinality(all) > cap THEN {t} ELSE {},
              alloc |-> alloc]}
       ELSE UNION {
              UNION {
                { LET ch == l.ref[2] # n.l[2] \/ r.ref[2] # n.r[2] \/ (~asCoded /\ (l.ref # n.l \/ r.ref # n.r))
                      lref == IF asCoded /\ ch THEN ItemRef(l.ref[2]) ELSE l.ref
                      rref == IF asCoded /\ ch THEN ItemRef(r.ref[2]) ELSE r.ref
                  IN [ref |-> ref,
                      put |-> (IF ch THEN (t :> Split(n.plane, lref, rref)) ELSE EmptyFn) @@ l.put @@ r.put,
                      large |-> l.large \cup r.large,
                      alloc |-> r.alloc]
                  : r \in InsertInto(nodes, n.r, d.R, cap, l.alloc, asCoded, tokOf) }
                : l \in InsertInto(nodes, n.l, d.L, cap, alloc, asCoded, tokOf) }
              : d \in Divide(n.plane, S, tokOf) }

(***************************************************************************)
(* make_tree_in_file: one item -> an item reference; fits -> one fresh      *)
(* bucket (possibly empty); otherwise choose a plane, divide, recurse left  *)
(* then right, allocate the split node last.                                *)
(***************************************************************************)
RECURSIVE MakeTree(_, _, _, _, _, _, _)
MakeTree(S, cap, alloc, fuel, tokOf, toks, maxTrivial) ==
  IF Cardinality(S) = 1
  THEN {[ref |-> ItemRef(CHOOSE x \in S : TRUE), new |-> EmptyFn, alloc |-> alloc]}
  ELSE IF Cardinality(S) <= cap
  THEN LET nx == AllocNext(alloc)
       IN {[ref |-> TreeRef(nx.id), new |-> (nx.id :> Bucket(S)), alloc |-> nx.a]}
  ELSE UNION {
         UNION {
           { LET nx == AllocNext(r.alloc)
             IN [ref |-> TreeRef(nx.id),
                 new |-> (nx.id :> Split(sp.plane, l.ref, r.ref)) @@ l.new @@ r.new,
                 alloc |-> nx.a]
             : r \in MakeTree(sp.R, cap, l.alloc, sp.fuel, tokOf, toks, maxTrivial) }
           : l \in MakeTree(sp.L, cap, alloc, sp.fuel, tokOf, toks, maxTrivial) }
         : sp \in SplitsOf(S, tokOf, toks, fuel, maxTrivial) }

\* TmpNodes::remap: the new sub-tree's root takes the id of the bucket it replaces
Remap(new, rootId, asId) ==
  [n \in ((DOMAIN new \ {rootId}) \cup {asId}) |-> IF n = asId THEN new[rootId] ELSE new[n]]

(***************************************************************************)
(* target_n_trees in integer arithmetic.  req = 0 stands for "automatic".   *)
(* (r - nb) / nb < 0.20  <=>  5 (r - nb) < nb   for nb > 0; for nb = 0 the  *)
(* float quotient is +inf and the hysteresis does not apply.                *)
(* atLeastOne = the repaired behaviour (finding F4).                        *)
(***************************************************************************)
TargetTrees(req, dim, n, nroots, atLeastOne) ==
  IF req # 0 THEN req
  ELSE LET perTree == (n \div dim) + 1
           nb0 == n \div perTree
           nb == IF atLeastOne /\ nb0 = 0 /\ n > 0 THEN 1 ELSE nb0
       IN IF nroots > nb /\ nb > 0 /\ 5 * (nroots - nb) < nb THEN nroots ELSE nb
=============================================================================
