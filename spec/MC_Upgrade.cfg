SPECIFICATION Spec
CONSTANTS
  Indexes = {1}
  Ids = {1, 2, 3}
  Toks = {"a", "b"}
  Metrics = {"f"}
  Dim = 2
  Caps = {1}
  Reqs = {1}
  MaxBuilds = 2
  MaxTrivial = 1
  MinBatch = 2
  AsCodedInsert = FALSE
  AsCodedDelTree = FALSE
  AsCodedBatch = FALSE
  AtLeastOne = TRUE
  WithTxn = FALSE
  WithCancel = FALSE
  WithAppend = FALSE
  QueryFlip = FALSE
INVARIANTS
  ValidWhenOpen
  OpenIffFresh
  TreeCount
  RequestedTreeCount
  SingleBucketIndex
  BucketsWithinConstantCapacity
  Routed
  PhaseInv
  NoPanic
  NoInternalError
  IdsBounded
  UpgradePreservesContent
PROPERTIES
  OthersUntouched
CHECK_DEADLOCK FALSE
