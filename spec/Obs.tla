-------------------------------- MODULE Obs ---------------------------------
(***************************************************************************)
(* Shared by the trace specifications: the conversion of logged JSON       *)
(* projections into the values of Store.tla / Forest.tla, and the          *)
(* API-level observation bundle (harness/src/exec.rs `observe`: writer and *)
(* reader calls made on one transaction) checked against an abstract index *)
(* value.  No variables here.                                              *)
(***************************************************************************)
EXTENDS Store, Search

(* JSON -> values of Store.tla *)
JSet(s) == {s[k] : k \in DOMAIN s}
JPairs(s) == {<<s[k][1], s[k][2]>> : k \in DOMAIN s}
JFun(s) == [x \in {s[k][1] : k \in DOMAIN s} |-> s[CHOOSE k \in DOMAIN s : s[k][1] = x][2]]
JNode(n) == IF n.tag = "B" THEN Bucket(JSet(n.items))
            ELSE Split([zero |-> n.zero, right |-> {n.pt}, ms |-> <<>>], n.l, n.r)
JNodeMs(n) == IF n.tag = "B" THEN Bucket(JSet(n.items))
              ELSE Split([zero |-> n.zero, right |-> {n.pt}, ms |-> n.ms], n.l, n.r)
JNodes(ns) == [x \in {ns[k].id : k \in DOMAIN ns} |-> JNode(ns[CHOOSE k \in DOMAIN ns : ns[k].id = x])]
JNodesMs(ns) == [x \in {ns[k].id : k \in DOMAIN ns} |-> JNodeMs(ns[CHOOSE k \in DOMAIN ns : ns[k].id = x])]
JMeta(m) == IF m.has THEN [metric |-> m.metric, dim |-> m.dim, items |-> JSet(m.items), roots |-> m.roots]
            ELSE NoMeta
JIndex(st) ==
  [metric |-> st.metric, dim |-> st.dim, store |-> JFun(st.store), updated |-> JSet(st.updated),
   meta |-> JMeta(st.meta), version |-> st.version, nodes |-> JNodes(st.nodes)]


-----------------------------------------------------------------------------
(* API-level observations (C05, C06), against the abstract index value *)
VecDefects(vs, ix, tag) ==
  (IF JPairs(vs) # {<<x, ix.store[x]>> : x \in Live(ix)} THEN {<<"C05", tag>>} ELSE {})
  \cup (IF \E k \in DOMAIN vs : vs[k][3] # ix.dim THEN {<<"C05", tag \o "_length">>} ELSE {})
IterDefects(it, ix, tag) ==
  VecDefects(it, ix, tag)
  \cup (IF [k \in DOMAIN it |-> it[k][1]] # SortedSeq(Live(ix)) THEN {<<"C05", tag \o "_order">>} ELSE {})

ObsDefects(o, ix) ==
  IF ~o.ok THEN {<<"C05", "observation_panicked">>}
  ELSE
       (IF JSet(o.contains) # Live(ix) THEN {<<"C05", "contains_item">>} ELSE {})
  \cup VecDefects(o.vecs, ix, "item_vector")
  \cup IterDefects(o.iter, ix, "iter")
  \cup (IF o.iter_err THEN {<<"C05", "iter_error">>} ELSE {})
  \cup (IF o.empty # (Live(ix) = {}) THEN {<<"C05", "is_empty">>} ELSE {})
  \cup (IF o.need_build # NeedBuildRes(ix) THEN {<<"C06", "need_build">>} ELSE {})
  \cup (IF o.open # OpenRes(ix, ix.metric) THEN {<<"C06", "open_" \o OpenRes(ix, ix.metric) \o "_got_" \o o.open>>} ELSE {})
  \cup (IF o.open_other # OpenRes(ix, o.other) THEN {<<"C06", "open_other_metric">>} ELSE {})
  \cup (IF \E k \in DOMAIN o.open_others : o.open_others[k][2] # OpenRes(ix, o.open_others[k][1])
        THEN {<<"C06", "open_under_another_metric">>} ELSE {})
  \cup (IF ~o.rd.has THEN {}
        ELSE  (IF o.rd.n_items # Cardinality(Live(ix)) THEN {<<"C05", "reader_n_items">>} ELSE {})
         \cup (IF JSet(o.rd.items) # Live(ix) THEN {<<"C05", "reader_item_ids">>} ELSE {})
         \cup (IF o.rd.n_trees # Len(ix.meta.roots) THEN {<<"C15", "reader_n_trees">>} ELSE {})
         \cup (IF o.rd.dim # ix.dim THEN {<<"C05", "reader_dimensions">>} ELSE {})
         \cup (IF o.rd.empty # (Live(ix) = {}) THEN {<<"C05", "reader_is_empty">>} ELSE {})
         \cup (IF JSet(o.rd.contains) # Live(ix) THEN {<<"C05", "reader_contains_item">>} ELSE {})
         \cup VecDefects(o.rd.vecs, ix, "reader_item_vector")
         \cup IterDefects(o.rd.iter, ix, "reader_iter"))

\* C06 against the state the SPECIFICATION computes for a deterministic operation (not the logged one):
\* if the operation left something behind that keeps the index open-able, this is where it shows
StaleDefects(o, exp) ==
  IF ~o.ok THEN {}
  ELSE (IF o.need_build # NeedBuildRes(exp) THEN {<<"C06", "need_build_differs_from_the_specified_state">>} ELSE {})
  \cup (IF o.open # OpenRes(exp, exp.metric) THEN {<<"C06", "open_" \o OpenRes(exp, exp.metric) \o "_expected_got_" \o o.open>>} ELSE {})

\* beyond the listed properties (conformance only): Reader::stats and Reader::n_nodes agree with the forest
=============================================================================
