SPECIFICATION Spec
CONSTANTS
  Ids = {1, 2, 3}
  Data = {"x", "y"}
  MaxOps = 2
INVARIANTS
  Commute
CHECK_DEADLOCK FALSE
