------------------------------- MODULE Replay --------------------------------
(***************************************************************************)
(* Specification -> implementation.  Behaviours of Arroy.tla are turned    *)
(* into histories for the real code: every API-level action appends its    *)
(* name and arguments to `hist`; when a behaviour has used up its builds,   *)
(* the history is printed as one JSON line (TLC -simulate).  The harness    *)
(* instantiates tokens with concrete vectors and ids with concrete item     *)
(* ids, executes the history on arroy and the recorded execution is         *)
(* validated by TraceMain.tla like any other - so every action of the       *)
(* model, in the orders TLC chose, is exercised on the code.                *)
(***************************************************************************)
EXTENDS Arroy, Json

VARIABLE hist
rvars == <<vars, hist>>

RInit == Init /\ hist = <<>>

Log(x) == hist' = Append(hist, x)
RNext ==
  \/ \E i \in Indexes, id \in Ids, t \in Toks : Add(i, id, t) /\ Log([op |-> "add", i |-> i, id |-> id, t |-> t, req |-> 0, cap |-> 0])
  \/ \E i \in Indexes, id \in Ids : Del(i, id) /\ Log([op |-> "del", i |-> i, id |-> id, t |-> "", req |-> 0, cap |-> 0])
  \/ \E i \in Indexes : Clear(i) /\ Log([op |-> "clear", i |-> i, id |-> 0, t |-> "", req |-> 0, cap |-> 0])
  \/ (WithAppend /\ \E i \in Indexes, id \in Ids, t \in Toks : AppendItem(i, id, t) /\ Log([op |-> "append", i |-> i, id |-> id, t |-> t, req |-> 0, cap |-> 0]))
  \/ \E i \in Indexes, r \in Reqs, c \in Caps : BuildStart(i, r, c) /\ Log([op |-> "build", i |-> i, id |-> 0, t |-> "", req |-> r, cap |-> c])
  \/ (BuildStep /\ UNCHANGED hist)
  \/ (Commit /\ Log([op |-> "commit", i |-> 0, id |-> 0, t |-> "", req |-> 0, cap |-> 0]))
  \/ (Abort /\ Log([op |-> "abort", i |-> 0, id |-> 0, t |-> "", req |-> 0, cap |-> 0]))

RSpec == RInit /\ [][RNext]_rvars

\* printed when the last build of the behaviour has finished (duplicates are removed by the driver)
EmitWhenDone == ~(b.pc = "idle" /\ nbuilds = MaxBuilds) \/ PrintT("REPLAY " \o ToJson(hist))
=============================================================================
