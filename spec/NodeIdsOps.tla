----------------------------- MODULE NodeIdsOps ------------------------------
(***************************************************************************)
(* ConcurrentNodeIds (src/parallel.rs): the lock-free generator of fresh   *)
(* tree-node ids shared by the threads that update the trees in parallel.  *)
(* One label per atomic operation of `next()`:                              *)
(*                                                                         *)
(*   used:  used.fetch_add(1)                     (counts ids, not modelled *)
(*                                                 beyond the counter)     *)
(*   look:  look_into_bitmap.load()               -> sel or cur            *)
(*   sel:   k := select_in_bitmap.fetch_add(1);                            *)
(*          available.select(k) = Some(id) -> return id, else -> off       *)
(*   off:   look_into_bitmap.store(false)         -> cur                   *)
(*   cur:   return current.fetch_add(1)                                    *)
(*                                                                         *)
(* The state is a record and Step(s, t) a FUNCTION of it, so the same       *)
(* definition serves model checking (Next == \E t : st' = Step(st, t)) and  *)
(* the replay of schedules recorded from the real code (TraceIds.tla folds  *)
(* Step over the recorded schedule).                                        *)
(*                                                                         *)
(* `atomic = FALSE` gives the load-then-store variant of the two counters   *)
(* (an extra label between the read and the write); it exists only to show  *)
(* that the check is sensitive: TLC must find a duplicate id.               *)
(***************************************************************************)
EXTENDS Naturals, Sequences, FiniteSets, TLC

Max(S) == CHOOSE x \in S : \A y \in S : y <= x

\* recyclable ids: the gaps below the largest used id, ascending
AvailOf(used) ==
  LET last == IF used = {} THEN 0 ELSE Max(used) + 1
      gaps == (0 .. (last - 1)) \ used
      RECURSIVE Asc(_)
      Asc(S) == IF S = {} THEN <<>> ELSE LET m == CHOOSE x \in S : \A y \in S : x <= y IN <<m>> \o Asc(S \ {m})
  IN Asc(gaps)

InitState(used, threads, reqs) ==
  [cur  |-> IF used = {} THEN 0 ELSE Max(used) + 1,
   cnt  |-> Cardinality(used),
   sel  |-> 0,
   look |-> AvailOf(used) # <<>>,
   avail |-> AvailOf(used),
   pc   |-> [t \in threads |-> IF reqs[t] > 0 THEN "used" ELSE "done"],
   tmp  |-> [t \in threads |-> 0],
   left |-> reqs,
   out  |-> [t \in threads |-> <<>>]]

\* thread t returns id: one request less; next call starts over or the thread is done
Return(s, t, id) ==
  [s EXCEPT !.out[t] = Append(@, id),
            !.left[t] = @ - 1,
            !.pc[t] = IF s.left[t] - 1 > 0 THEN "used" ELSE "done"]

Enabled(s, t) == s.pc[t] # "done"

\* the label thread t executes next, as the hook names it
OpOf(s, t) ==
  CASE s.pc[t] = "used" -> "u64.fetch_add"
    [] s.pc[t] = "look" -> "bool.load"
    [] s.pc[t] = "sel"  -> "u32.fetch_add"
    [] s.pc[t] = "off"  -> "bool.store"
    [] s.pc[t] = "cur"  -> "u32.fetch_add"
    [] OTHER -> "none"

Step(s, t) ==
  CASE s.pc[t] = "used" -> [s EXCEPT !.cnt = @ + 1, !.pc[t] = "look"]
    [] s.pc[t] = "look" -> [s EXCEPT !.pc[t] = IF s.look THEN "sel" ELSE "cur"]
    [] s.pc[t] = "sel"  ->
         LET k == s.sel
             s1 == [s EXCEPT !.sel = @ + 1]
         IN IF k + 1 <= Len(s.avail) THEN Return(s1, t, s.avail[k + 1])
            ELSE [s1 EXCEPT !.pc[t] = "off"]
    [] s.pc[t] = "off"  -> [s EXCEPT !.look = FALSE, !.pc[t] = "cur"]
    [] s.pc[t] = "cur"  -> Return([s EXCEPT !.cur = @ + 1], t, s.cur)
    [] OTHER -> s

\* non-atomic variant of the two fetch_add on ids (read, then write): sensitivity only
StepNA(s, t) ==
  CASE s.pc[t] = "sel"  -> [s EXCEPT !.tmp[t] = s.sel, !.pc[t] = "sel2"]
    [] s.pc[t] = "sel2" ->
         LET k == s.tmp[t]
             s1 == [s EXCEPT !.sel = k + 1]
         IN IF k + 1 <= Len(s.avail) THEN Return(s1, t, s.avail[k + 1])
            ELSE [s1 EXCEPT !.pc[t] = "off"]
    [] s.pc[t] = "cur"  -> [s EXCEPT !.tmp[t] = s.cur, !.pc[t] = "cur2"]
    [] s.pc[t] = "cur2" -> Return([s EXCEPT !.cur = s.tmp[t] + 1], t, s.tmp[t])
    [] OTHER -> Step(s, t)

\* C13: every id handed out is neither in use nor handed to anyone else
Handed(s) == UNION {{s.out[t][k] : k \in DOMAIN s.out[t]} : t \in DOMAIN s.out}
NbHanded(s) ==
  LET RECURSIVE Sum(_)
      Sum(T) == IF T = {} THEN 0 ELSE LET t == CHOOSE x \in T : TRUE IN Len(s.out[t]) + Sum(T \ {t})
  IN Sum(DOMAIN s.out)
UniqueIn(s, used) == Cardinality(Handed(s)) = NbHanded(s) /\ Handed(s) \cap used = {}

=============================================================================
