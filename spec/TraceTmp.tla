------------------------------ MODULE TraceTmp -------------------------------
(***************************************************************************)
(* Operation sequences executed on the real TmpNodes / TmpNodesReader      *)
(* (exported by hook H5), checked against TmpNodesOps.tla.  One line = one *)
(* buffer:                                                                 *)
(*   ops : the calls, in order: {op: "put", id, d} | {op: "remove", id} |  *)
(*         {op: "remap", id, to}                                           *)
(*   res : "Ok" | "Panic" (the harness is built with debug assertions, so  *)
(*         the two debug_assert! of the type are live)                     *)
(*   del : what to_delete() yielded;  ins : what to_insert() yielded, as   *)
(*         <<id, data>> in order                                           *)
(* Conformance conjuncts (DRIFT, reported under C13, whose forests are     *)
(* written back through this type by every thread of the parallel section):*)
(* the outputs are the spec's, and the type panics exactly when the spec's *)
(* discipline predicates say a debug assertion fails.                      *)
(***************************************************************************)
EXTENDS TmpNodesOps, Integers, Json, IOUtils, TLC

Rec == ndJsonDeserialize(IOEnv.TRACE)
VARIABLES l
JS(s) == {s[k] : k \in DOMAIN s}

Say(kind, e, conj) == PrintT(kind \o "|" \o ToString(e.n) \o "|0|" \o ToString(l) \o "|C13|" \o conj \o "|Tmp")

Tmp ==
  /\ l <= Len(Rec)
  /\ LET e == Rec[l]
         b == Buffer(Empty, e.ops)
         asserts == NoPutAfterRemove(e.ops) /\ NoDoubleRemove(e.ops)
         ins == ToInsert(b)
         sameIns == Len(ins) = Len(e.ins) /\ \A k \in 1 .. Len(ins) : ins[k][1] = e.ins[k][1] /\ ins[k][2] = e.ins[k][2]
     IN /\ (asserts /\ e.res # "Ok" => Say("DRIFT", e, "buffer_failed_on_a_legal_sequence"))
        /\ (~asserts /\ e.res = "Ok" => Say("DRIFT", e, "debug_assertion_of_the_buffer_did_not_fire"))
        /\ (e.res = "Ok" /\ JS(e.del) # ToDelete(b) => Say("DRIFT", e, "to_delete_differs_from_the_specification"))
        /\ (e.res = "Ok" /\ ~sameIns => Say("DRIFT", e, "to_insert_differs_from_the_specification"))
  /\ l' = l + 1

TraceInit == l = 1
TraceSpec == TraceInit /\ [][Tmp]_l
TraceAccepted ==
  LET d == TLCGet("stats").diameter IN
  IF d = Len(Rec) + 1 THEN TRUE ELSE Print(<<"STUCK", d>>, FALSE)
=============================================================================
