---------------------------- MODULE NodeIdsRefine ----------------------------
(***************************************************************************)
(* Bridge between the model-checked NodeIds.tla (bounded, shared with the  *)
(* schedule replay of the real code) and NodeIdsProof.tla (unbounded,      *)
(* proved with TLAPS): TLC checks that every behaviour of NodeIds is a     *)
(* behaviour of NodeIdsProof under the mapping below, and that the facts   *)
(* NodeIdsProof assumes about its constants hold for what                  *)
(* ConcurrentNodeIds::new computes from every used set.                    *)
(***************************************************************************)
EXTENDS NodeIds

CONSTANT UsedC      \* the used set of this run (constants of NodeIdsProof must be constant-level)

Cur0Of(u) == IF u = {} THEN 0 ELSE Max(u) + 1

P == INSTANCE NodeIdsProof WITH
       Used <- UsedC,
       Avail <- AvailOf(UsedC),
       Cur0 <- Cur0Of(UsedC),
       cur <- st.cur,
       sel <- st.sel,
       look <- st.look,
       pc <- [t \in Threads |-> IF st.pc[t] \in {"used", "done"} THEN "idle" ELSE st.pc[t]],
       handed <- Handed(st),
       dup <- ~UniqueIn(st, used0)

RInit == used0 = UsedC /\ Init
RSpec == RInit /\ [][Next]_<<st, used0>>
Refines == P!Spec
ASSUME AssumptionsHold == P!ConstAssump
=============================================================================
