-------------------------------- MODULE Arroy --------------------------------
(***************************************************************************)
(* arroy as a state machine: several indexes in one LMDB database, the     *)
(* item operations, the build pipeline as one action per phase / loop      *)
(* iteration (so that cancellation, faults and crashes can strike between  *)
(* any two), and the caller's transaction (commit / abort).  Geometry is   *)
(* abstracted to vector tokens and planes that are sets of tokens.         *)
(*                                                                         *)
(* The pure operators (Forest.tla, Store.tla) are shared with the trace     *)
(* specification TraceMain.tla, which checks recorded executions of the    *)
(* real code against them.                                                 *)
(***************************************************************************)
EXTENDS Upgrade, Search

CONSTANTS
  Indexes,        \* index numbers in the database, e.g. {1, 2}
  Ids,            \* item ids, e.g. 1..3
  Toks,           \* vector tokens (distinct bit patterns)
  Metrics,        \* metric names, e.g. {"f", "q"}
  Dim,            \* declared dimension (a number; only TargetTrees looks at it)
  Caps,           \* capacities a build may be given (split_after)
  Reqs,           \* requested tree counts; 0 = automatic
  MaxBuilds,      \* builds per behaviour
  MaxTrivial,     \* how many one-sided random splits MakeTree may take in a row
  MinBatch,       \* stands for the code's 200-item minimum batch (>= 2)
  AsCodedInsert,  \* TRUE: reproduce finding F1
  AsCodedDelTree, \* TRUE: reproduce finding F2
  AsCodedBatch,   \* TRUE: reproduce finding F7
  AtLeastOne,     \* FALSE: reproduce finding F4
  WithTxn,        \* explore Commit / Abort
  WithCancel,     \* explore cancellation at every phase boundary
  WithAppend,     \* explore append_item and rejected calls
  QueryFlip       \* TRUE: the query is routed to the wrong side first (sensitivity of the search theorems)

VARIABLES
  db,         \* [Indexes -> index value]: what the open write transaction sees
  committed,  \* what a new reader sees
  b,          \* the running build (b.pc = "idle" when none)
  fresh,      \* ghost: the last effective event on the index was a successful build
  cfresh,     \* its committed copy
  caps,       \* ghost: capacities used since the forest of the index was last wiped
  ccaps,
  poisoned,   \* a build failed in this transaction: the caller may only abort
  nbuilds,
  last,       \* outcome of the last finished call, for the properties
  breq        \* ghost: tree count requested by the last successful full build of each index (0 = automatic, -1 = none)

vars == <<db, committed, b, fresh, cfresh, caps, ccaps, poisoned, nbuilds, last, breq>>

Idle == [pc |-> "idle", i |-> 0, req |-> 0, cap |-> 0, items |-> {}, upd |-> {}, roots |-> <<>>,
         alloc |-> [avail |-> <<>>, cur |-> 0], large |-> {}, pending |-> {}, k |-> 0, target |-> 0]

Requant(m, t) == t   \* tokens are abstract: re-encoding is the identity on them here

Init ==
  /\ db = [i \in Indexes |-> EmptyIndex(CHOOSE m \in Metrics : TRUE, Dim)]
  /\ committed = db
  /\ b = Idle
  /\ fresh = [i \in Indexes |-> FALSE]
  /\ cfresh = fresh
  /\ caps = [i \in Indexes |-> {}]
  /\ ccaps = caps
  /\ poisoned = FALSE
  /\ nbuilds = 0
  /\ last = "none"
  /\ breq = [i \in Indexes |-> -1]

CanCall == b.pc = "idle" /\ ~poisoned
\* item operations after the last build of the bound add nothing that an earlier round does not show
CanEdit == CanCall /\ nbuilds < MaxBuilds

-----------------------------------------------------------------------------
(* item operations *)
Add(i, id, t) ==
  /\ CanEdit
  /\ db' = [db EXCEPT ![i] = AddOp(@, id, t)]
  /\ fresh' = [fresh EXCEPT ![i] = FALSE]
  /\ last' = "ok"
  /\ UNCHANGED <<committed, b, cfresh, caps, ccaps, poisoned, nbuilds, breq>>

Del(i, id) ==
  /\ CanEdit
  /\ db' = [db EXCEPT ![i] = DelOp(@, id)]
  /\ fresh' = IF DelRet(db[i], id) THEN [fresh EXCEPT ![i] = FALSE] ELSE fresh
  /\ last' = "ok"
  /\ UNCHANGED <<committed, b, cfresh, caps, ccaps, poisoned, nbuilds, breq>>

\* append_item: accepted iff the new key sorts after every key of the database (all indexes, all
\* kinds: Keys.tla shows that byte order = (index, kind, id) order and that item keys are the
\* last kind of an index), and then it is an add; otherwise nothing changes.
IndexHasKeys(ix) == ix.store # EmptyFn \/ ix.updated # {} \/ ix.meta # NoMeta \/ ix.version # NoVersion \/ ix.nodes # EmptyFn
AboveAll(d, i, id) == (\A x \in Live(d[i]) : x < id) /\ (\A j \in DOMAIN d : j > i => ~IndexHasKeys(d[j]))
AppendItem(i, id, t) ==
  /\ CanEdit
  /\ IF AboveAll(db, i, id)
     THEN /\ db' = [db EXCEPT ![i] = AddOp(@, id, t)]
          /\ fresh' = [fresh EXCEPT ![i] = FALSE]
          /\ last' = "ok"
     ELSE /\ UNCHANGED <<db, fresh, breq>>
          /\ last' = "rejected"
  /\ UNCHANGED <<committed, b, cfresh, caps, ccaps, poisoned, nbuilds, breq>>

\* a call with a vector of the wrong length is rejected before any write
WrongLength(i) ==
  /\ CanEdit
  /\ last' = "rejected"
  /\ UNCHANGED <<db, committed, b, fresh, cfresh, caps, ccaps, poisoned, nbuilds, breq>>

Clear(i) ==
  /\ CanEdit
  /\ db' = [db EXCEPT ![i] = ClearOp(@)]
  /\ fresh' = [fresh EXCEPT ![i] = FALSE]
  /\ caps' = [caps EXCEPT ![i] = {}]
  /\ last' = "ok"
  /\ UNCHANGED <<committed, b, cfresh, ccaps, poisoned, nbuilds, breq>>

ChangeMetric(i, m) ==
  /\ CanEdit
  /\ db' = [db EXCEPT ![i] = ChangeMetricOp(@, m, [t \in Toks |-> Requant(m, t)])]
  /\ fresh' = IF m = db[i].metric THEN fresh ELSE [fresh EXCEPT ![i] = FALSE]
  /\ caps' = IF m = db[i].metric THEN caps ELSE [caps EXCEPT ![i] = {}]
  /\ last' = "ok"
  /\ UNCHANGED <<committed, b, cfresh, ccaps, poisoned, nbuilds, breq>>

Commit ==
  /\ WithTxn /\ CanCall
  /\ committed' = db /\ cfresh' = fresh /\ ccaps' = caps
  /\ last' = "ok"
  /\ UNCHANGED <<db, b, fresh, caps, poisoned, nbuilds, breq>>

Abort ==
  /\ WithTxn /\ b.pc = "idle"
  /\ db' = committed /\ fresh' = cfresh /\ caps' = ccaps
  /\ poisoned' = FALSE
  /\ last' = "ok"
  /\ breq' = [i \in Indexes |-> -2]
  /\ UNCHANGED <<committed, b, cfresh, ccaps, nbuilds>>

-----------------------------------------------------------------------------
(* the build pipeline *)
Ix == db[b.i]
SetNodes(nn) == db' = [db EXCEPT ![b.i].nodes = nn]

\* PreProcess + RetrieveItemIds + ResetUpdated, then either the single-bucket shortcut or ReadMeta + UsedNodeIds
BuildStart(i, req, cap) ==
  /\ CanCall /\ nbuilds < MaxBuilds
  /\ nbuilds' = nbuilds + 1
  /\ LET ix == db[i]
         items == Live(ix)
         n == Cardinality(items)
     IN IF n <= cap
        THEN \* clear_db_and_create_a_single_leaf
             /\ db' = [db EXCEPT ![i] =
                   [ix EXCEPT !.updated = {},
                              !.nodes = IF items = {} THEN EmptyFn ELSE (0 :> Bucket(items)),
                              !.meta = [metric |-> ix.metric, dim |-> ix.dim, items |-> items,
                                        roots |-> IF items = {} THEN <<>> ELSE <<0>>],
                              !.version = <<0, 6, 1>>]]
             /\ b' = Idle
             /\ fresh' = [fresh EXCEPT ![i] = TRUE]
             /\ caps' = [caps EXCEPT ![i] = {cap}]   \* the forest was wiped and rebuilt under this capacity
             /\ last' = "ok"
             /\ breq' = [breq EXCEPT ![i] = -1]
             /\ UNCHANGED <<committed, cfresh, ccaps, poisoned>>
        ELSE /\ db' = [db EXCEPT ![i].updated = {}]
             /\ b' = [pc |-> "delextra", i |-> i, req |-> req, cap |-> cap, items |-> items,
                      upd |-> ix.updated, roots |-> ix.meta.roots,
                      alloc |-> AllocInit(DOMAIN ix.nodes), large |-> {}, pending |-> items \cap ix.updated,
                      k |-> 1,
                      target |-> TargetTrees(req, ix.dim, n, Len(ix.meta.roots), AtLeastOne)]
             /\ caps' = [caps EXCEPT ![i] = @ \cup {cap}]
             /\ last' = "ok"
             /\ UNCHANGED <<committed, fresh, cfresh, ccaps, poisoned, breq>>

Fail(why) ==
  /\ b' = Idle /\ poisoned' = TRUE /\ last' = why
  /\ UNCHANGED <<db, committed, fresh, cfresh, caps, ccaps, nbuilds, breq>>

\* any poll of the cancellation callback may answer true (monotone callbacks: every phase polls)
Cancel == WithCancel /\ b.pc # "idle" /\ Fail("cancelled")

\* delete_extra_trees: one tree per iteration, oldest first (swap_remove(0)).
\* delete_tree walks the doomed tree and, as coded, looks every single-item child up in the
\* database: a child the user has deleted makes the whole build fail (finding F2).
ItemChildren(nodes, ts) ==
  UNION {{r[2] : r \in {x \in {nodes[t].l, nodes[t].r} : IsItem(x)}} : t \in {u \in ts : IsSplit(nodes[u])}}
DelExtra ==
  /\ b.pc = "delextra"
  /\ IF Len(b.roots) > b.target
     THEN LET r == b.roots[1]
              rest == IF Len(b.roots) = 1 THEN <<>>
                      ELSE <<b.roots[Len(b.roots)]>> \o SubSeq(b.roots, 2, Len(b.roots) - 1)
              ts == NodesBelow(Ix.nodes, TreeRef(r))
          IN IF AsCodedDelTree /\ ~(ItemChildren(Ix.nodes, ts) \subseteq b.items)
             THEN Fail("missing_key")
             ELSE /\ SetNodes([n \in (DOMAIN Ix.nodes \ ts) |-> Ix.nodes[n]])
                  /\ b' = [b EXCEPT !.roots = rest]
                  /\ UNCHANGED <<committed, fresh, cfresh, caps, ccaps, poisoned, nbuilds, last, breq>>
     ELSE /\ b' = [b EXCEPT !.pc = "delitems", !.k = 1]
          /\ UNCHANGED <<db, committed, fresh, cfresh, caps, ccaps, poisoned, nbuilds, last, breq>>

\* delete_items_from_trees: every root is walked into one scratch file, which is applied at the end
DelItems ==
  /\ b.pc = "delitems"
  /\ LET r == AfterDeleteItems(Ix.nodes, b.roots, b.upd, b.cap)
     IN /\ SetNodes(r.nodes)
        /\ b' = [b EXCEPT !.roots = r.roots, !.pc = "insert"]
  /\ UNCHANGED <<committed, fresh, cfresh, caps, ccaps, poisoned, nbuilds, last, breq>>

\* candidate batches: a non-empty prefix (smallest ids first) of at least min(lo, |S|) ids
Prefixes(S, lo) ==
  LET s == SortedSeq(S)
      m == IF lo < Len(s) THEN lo ELSE Len(s)
  IN {SeqToSet(SubSeq(s, 1, k)) : k \in m .. Len(s)}

\* insert one batch into every tree (insert_items_in_current_trees, one loop iteration)
RECURSIVE InsertAll(_, _, _, _, _)
InsertAll(nodes, roots, k, S, alloc) ==
  IF k > Len(roots) THEN {[put |-> EmptyFn, large |-> {}, alloc |-> alloc]}
  ELSE UNION {
         { [put |-> o.put @@ rest.put, large |-> o.large \cup rest.large, alloc |-> rest.alloc]
           : rest \in InsertAll(nodes, roots, k + 1, S, o.alloc) }
         : o \in InsertInto(nodes, TreeRef(roots[k]), S, b.cap, alloc, AsCodedInsert, Ix.store) }
InsertBatch ==
  /\ b.pc = "insert"
  /\ IF b.pending = {} \/ b.roots = <<>>
     THEN /\ b' = [b EXCEPT !.pc = "missing", !.pending = {}]
          /\ UNCHANGED <<db, committed, fresh, cfresh, caps, ccaps, poisoned, nbuilds, last, breq>>
     ELSE \E batch \in Prefixes(b.pending, MinBatch) :
          \E o \in InsertAll(Ix.nodes, b.roots, 1, batch, b.alloc) :
            /\ SetNodes(Apply(Ix.nodes, o.put, {}))
            /\ b' = [b EXCEPT !.pending = @ \ batch, !.alloc = o.alloc, !.large = @ \cup o.large]
            /\ UNCHANGED <<committed, fresh, cfresh, caps, ccaps, poisoned, nbuilds, last, breq>>

\* one missing tree per step: a single over-full bucket holding every item
CreateMissing ==
  /\ b.pc = "missing"
  /\ IF Len(b.roots) < b.target
     THEN LET nx == AllocNext(b.alloc) IN
          /\ SetNodes((nx.id :> Bucket(b.items)) @@ Ix.nodes)
          /\ b' = [b EXCEPT !.roots = Append(@, nx.id), !.large = @ \cup {nx.id}, !.alloc = nx.a]
          /\ UNCHANGED <<committed, fresh, cfresh, caps, ccaps, poisoned, nbuilds, last, breq>>
     ELSE /\ b' = [b EXCEPT !.pc = "split"]
          /\ UNCHANGED <<db, committed, fresh, cfresh, caps, ccaps, poisoned, nbuilds, last, breq>>

\* incremental_index_large_descendants, one iteration: build a sub-tree from a batch of the
\* bucket's items, put its root at the bucket's id, route the remainder into it.
SplitOneLarge ==
  /\ b.pc = "split"
  /\ IF b.large = {}
     THEN /\ b' = [b EXCEPT !.pc = "writemeta"]
          /\ UNCHANGED <<db, committed, fresh, cfresh, caps, ccaps, poisoned, nbuilds, last, breq>>
     ELSE LET d == Min(b.large) IN
          IF d \notin DOMAIN Ix.nodes \/ ~IsBucket(Ix.nodes[d])
          THEN Fail("panic")          \* the code unwraps / hits unreachable!()
          ELSE LET D == Ix.nodes[d].items
                   lo == IF AsCodedBatch THEN MinBatch
                         ELSE IF b.cap + 1 > MinBatch THEN b.cap + 1 ELSE MinBatch
               IN \E batch \in Prefixes(D, lo) :
                  \E t \in MakeTree(batch, b.cap, b.alloc, MaxTrivial, Ix.store, Toks, MaxTrivial) :
                    LET new == IF IsTree(t.ref) THEN Remap(t.new, t.ref[2], d) ELSE t.new
                        nodes1 == Apply(Ix.nodes, new, {})
                        rest == D \ batch
                    IN IF rest = {}
                       THEN /\ SetNodes(nodes1)
                            /\ b' = [b EXCEPT !.large = @ \ {d}, !.alloc = t.alloc]
                            /\ UNCHANGED <<committed, fresh, cfresh, caps, ccaps, poisoned, nbuilds, last, breq>>
                       ELSE \E o \in InsertInto(nodes1, TreeRef(d), rest, b.cap, t.alloc, AsCodedInsert, Ix.store) :
                            /\ SetNodes(Apply(nodes1, o.put, {}))
                            /\ b' = [b EXCEPT !.large = (@ \ {d}) \cup o.large, !.alloc = o.alloc]
                            /\ UNCHANGED <<committed, fresh, cfresh, caps, ccaps, poisoned, nbuilds, last, breq>>

WriteMeta ==
  /\ b.pc = "writemeta"
  /\ db' = [db EXCEPT ![b.i].meta = [metric |-> Ix.metric, dim |-> Ix.dim, items |-> b.items, roots |-> b.roots]]
  /\ b' = Idle
  /\ fresh' = [fresh EXCEPT ![b.i] = TRUE]
  /\ last' = "ok"
  /\ breq' = [breq EXCEPT ![b.i] = b.req]
  /\ UNCHANGED <<committed, cfresh, caps, ccaps, poisoned, nbuilds>>

BuildStep == DelExtra \/ DelItems \/ InsertBatch \/ CreateMissing \/ SplitOneLarge \/ WriteMeta

Next ==
  \/ \E i \in Indexes, id \in Ids, t \in Toks : Add(i, id, t)
  \/ \E i \in Indexes, id \in Ids : Del(i, id)
  \/ (WithAppend /\ \E i \in Indexes, id \in Ids, t \in Toks : AppendItem(i, id, t))
  \/ (WithAppend /\ \E i \in Indexes : WrongLength(i))
  \/ \E i \in Indexes : Clear(i)
  \/ \E i \in Indexes, m \in Metrics : ChangeMetric(i, m)
  \/ \E i \in Indexes, r \in Reqs, c \in Caps : BuildStart(i, r, c)
  \/ BuildStep
  \/ Cancel
  \/ Commit \/ Abort

Spec == Init /\ [][Next]_vars /\ WF_vars(BuildStep)

-----------------------------------------------------------------------------
(* properties *)

Quiescent == b.pc = "idle" /\ ~poisoned

\* C01 at every quiescent point where the index opens
ValidWhenOpen ==
  Quiescent => \A i \in Indexes :
     OpenRes(db[i], db[i].metric) = "Ok" =>
        ForestValid(db[i].nodes, db[i].meta.roots, Live(db[i]), db[i].meta.items)

\* C06: the reader opens exactly when the last effective event was a successful build
OpenIffFresh ==
  Quiescent => \A i \in Indexes :
     /\ (OpenRes(db[i], db[i].metric) = "Ok") <=> fresh[i]
     /\ NeedBuildRes(db[i]) <=> ~fresh[i]
     /\ \A m \in Metrics : m # db[i].metric => OpenRes(db[i], m) # "Ok"
CommittedOpenIffFresh ==
  \A i \in Indexes : (OpenRes(committed[i], committed[i].metric) = "Ok") <=> cfresh[i]

\* C15
TreeCount ==
  Quiescent => \A i \in Indexes : fresh[i] =>
     LET n == Cardinality(Live(db[i]))
         nt == Len(db[i].meta.roots)
     IN /\ n = 0 => nt = 0
        /\ n > 0 => nt >= 1
RequestedTreeCount ==
  Quiescent => \A i \in Indexes : (fresh[i] /\ breq[i] > 0) => Len(db[i].meta.roots) = breq[i]
SingleBucketIndex ==
  Quiescent => \A i \in Indexes : (fresh[i] /\ breq[i] = -1 /\ Live(db[i]) # {}) => Len(db[i].meta.roots) <= 1
BucketsWithinConstantCapacity ==
  Quiescent => \A i \in Indexes : fresh[i] =>
     \A c \in Caps : caps[i] = {c} => BucketBound(db[i].nodes, c)

\* C04
Routed ==
  Quiescent => \A i \in Indexes : fresh[i] =>
     LET S(plane, item) == IF plane.zero THEN "U"
                           ELSE IF db[i].store[item] \in plane.right THEN "R" ELSE "L"
     IN RoutedToSelf(db[i].nodes, db[i].meta.roots, S)

\* between phases: after the delete phase every kept tree covers exactly the untouched items, once
PhaseInv ==
  /\ b.pc \in {"insert"} /\ b.pending = (b.items \cap b.upd) =>
       \A k \in DOMAIN b.roots :
          LET w == Walk(Ix.nodes, TreeRef(b.roots[k]), Fuel(Ix.nodes))
          IN SeqToSet(w.items) = b.items \ b.upd /\ NoDup(w.items) /\ w.dang = {} /\ ~w.cyc
  /\ b.pc = "writemeta" =>
       ForestValid(Ix.nodes, b.roots, b.items, b.items)

\* C10 (design level): a build never reports success over a half-built forest, never panics
NoPanic == last # "panic"
NoInternalError == last # "missing_key"

\* C07: a step changes at most one index (Abort restores the committed database as a whole)
OthersUntouched ==
  [][(\E i \in Indexes : \A j \in Indexes \ {i} : db'[j] = db[j]) \/ db' = committed]_vars

\* C05: a build never changes the item store
BuildKeepsItems ==
  [][(b.pc # "idle" \/ b'.pc # "idle") => \A i \in Indexes : db'[i].store = db[i].store]_vars

\* C19: a rejected call is a stuttering step on the database and on staleness
RejectedChangesNothing ==
  [][last' = "rejected" => (db' = db /\ fresh' = fresh)]_vars

\* C18: changing the metric keeps the items, drops the forest and the metadata, demands a build
MetricChange ==
  [][\A i \in Indexes : db'[i].metric # db[i].metric =>
        /\ Live(db'[i]) = Live(db[i])
        /\ db'[i].nodes = EmptyFn /\ db'[i].meta = NoMeta
        /\ db'[i].updated = db[i].updated
        /\ NeedBuildRes(db'[i])
        /\ \A m \in Metrics : OpenRes(db'[i], m) # "Ok"]_vars

\* C08/C10 (design level): abort restores exactly what was committed
AbortRestores == [][(db' = committed /\ poisoned' = FALSE) \/ poisoned' = poisoned \/ poisoned']_vars

\* ---- search on every reachable forest (C02, C03, C04; the algorithm is Search.tla part 1) ----
\* a query is a vector token q; at a split with a normal plane the query's own side gets priority +1, the
\* other side -1; a zero plane gives 0 to both (ties are broken by the node reference, as in the code);
\* the distance rank of an item is 0 when it carries the query's token, 1 otherwise (ties by id).
PrioOf(i, q) ==
  [x \in (DOMAIN db[i].nodes) \X {"L", "R"} |->
     LET n == db[i].nodes[x[1]] IN
     IF ~IsSplit(n) \/ n.plane.zero THEN 0
     ELSE IF ((q \in n.plane.right) = (x[2] = "R")) # QueryFlip THEN 1 ELSE -1]
DRank(i, q) == [x \in Live(db[i]) |-> IF db[i].store[x] = q THEN 0 ELSE 1]
Unlimited == 1000000

SearchExactWhenUnlimited ==
  Quiescent => \A i \in Indexes : fresh[i] => \A q \in Toks : \A count \in 0 .. (Cardinality(Ids) + 1) :
     \A filter \in {Live(db[i]), {x \in Live(db[i]) : x % 2 = 1}, {}} :
        Answer(db[i].nodes, db[i].meta.roots, count, Unlimited, filter, PrioOf(i, q), DRank(i, q))
          = TakeBest(filter, count, DRank(i, q))

\* enlarging the budget only ever extends the sequence of visited candidates, hence never worsens the answer
VisitMonotoneInBudget ==
  Quiescent => \A i \in Indexes : fresh[i] => \A q \in Toks : \A k \in 1 .. (2 * Cardinality(Ids)) :
     LET va == Visit(db[i].nodes, db[i].meta.roots, k, Live(db[i]), PrioOf(i, q))
         vb == Visit(db[i].nodes, db[i].meta.roots, k + 1, Live(db[i]), PrioOf(i, q))
     IN Len(va) <= Len(vb) /\ SubSeq(vb, 1, Len(va)) = va

\* a stored item queried by its own vector with the smallest budget is among the candidates whenever one
\* tree leads to it through normal planes only
SelfLookupWithBudgetOne ==
  Quiescent => \A i \in Indexes : fresh[i] => \A x \in Live(db[i]) :
     LET S(plane, item) == IF plane.zero THEN "U" ELSE IF db[i].store[item] \in plane.right THEN "R" ELSE "L"
         q == db[i].store[x]
     IN (\E t \in DOMAIN db[i].meta.roots : DecidedPath(db[i].nodes, db[i].meta.roots[t], x, S))
          => x \in SeqToSet(Visit(db[i].nodes, db[i].meta.roots, 1, Live(db[i]), PrioOf(i, q)))

\* the documented default budget saturates
BudgetSaturates ==
  \A count \in {0, 1, 3, 1000000} : \A nt \in 0 .. 3 : \A over \in {0, 1, 3, 1000000} :
     Budget(count, 0, over, nt, 1, Unlimited) <= Unlimited

\* C17 (design level): the upgrade functions on every reachable index value
UpgradePreservesContent == \A i \in Indexes : RoundTrip(db[i]) /\ VersionStamp(db[i])

\* C14 (design level): a build consumes a bounded number of fresh node ids; a batch loop that makes no
\* progress (finding F7) burns one id per iteration and is caught by this bound long before the
\* liveness check could close a lasso (the id counter makes the looping states pairwise different)
IdsBounded == b.alloc.cur <= 16 * Cardinality(Ids)

\* C14 / C20 (design level): every build ends
BuildEnds == (b.pc # "idle") ~> (b.pc = "idle")
=============================================================================
