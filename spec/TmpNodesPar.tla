---------------------------- MODULE TmpNodesPar -----------------------------
(***************************************************************************)
(* Two write-back buffers filled by two threads of the parallel section    *)
(* from the same frozen database, applied one after the other by the main  *)
(* thread (src/writer.rs: `for tmp_node in tmp_nodes { to_delete ...;      *)
(* to_insert ... }`).                                                      *)
(*                                                                         *)
(*  Commute   if the two threads mention disjoint sets of node ids - which *)
(*            is what C13 promises: every tree owns its nodes and fresh    *)
(*            ids are handed out once (NodeIds.tla / NodeIdsProof.tla) -   *)
(*            the order in which the buffers are applied is irrelevant and *)
(*            each thread's effect is exactly its own sequential meaning;  *)
(*  OrderIrrelevant (sensitivity only) without that promise the result    *)
(*            depends on the order: TLC must refute it.                    *)
(***************************************************************************)
EXTENDS TmpNodesOps, TLC

CONSTANTS Ids, Data, MaxOps

VARIABLES db0, a, b
vars == <<db0, a, b>>

OpSet == [op : {"put"}, id : Ids, d : Data] \cup [op : {"remove"}, id : Ids]

Init == /\ db0 \in UNION {[S -> Data] : S \in SUBSET Ids}
        /\ a = <<>> /\ b = <<>>
Next == \/ /\ Len(a) < MaxOps /\ \E o \in OpSet : a' = Append(a, o) /\ UNCHANGED <<db0, b>>
        \/ /\ Len(b) < MaxOps /\ \E o \in OpSet : b' = Append(b, o) /\ UNCHANGED <<db0, a>>
Spec == Init /\ [][Next]_vars

Mentions(s) == {s[i].id : i \in 1 .. Len(s)}
Ba == Buffer(Empty, a)
Bb == Buffer(Empty, b)
AB == WriteBack(WriteBack(db0, Ba), Bb)
BA == WriteBack(WriteBack(db0, Bb), Ba)

Commute ==
  Mentions(a) \cap Mentions(b) = {} /\ NoPutAfterRemove(a) /\ NoPutAfterRemove(b)
  => /\ AB = BA
     \* each thread's ids end up as if that thread alone had run, one operation after the other
     /\ \A k \in Mentions(a) : (k \in DOMAIN AB <=> k \in DOMAIN Seql(db0, a)) /\ (k \in DOMAIN AB => AB[k] = Seql(db0, a)[k])
     /\ \A k \in Mentions(b) : (k \in DOMAIN AB <=> k \in DOMAIN Seql(db0, b)) /\ (k \in DOMAIN AB => AB[k] = Seql(db0, b)[k])
     /\ \A k \in Ids \ (Mentions(a) \cup Mentions(b)) : (k \in DOMAIN AB <=> k \in DOMAIN db0) /\ (k \in DOMAIN AB => AB[k] = db0[k])
\* without disjointness the order matters
OrderIrrelevant == NoPutAfterRemove(a) /\ NoPutAfterRemove(b) => AB = BA
=============================================================================
