"""Per-property plans: which model-checking configs, which drivers, which trace specs."""
import copy
import json
import os
import random
import shutil
import time

import vk

# --------------------------------------------------------------------------- main family

THREADS = [1, 1, 2, 1, 4, 1, 16, 8]


def summarize_history(h):
    ops = []
    for op in h["ops"]:
        if isinstance(op, str):
            ops.append(op)
        else:
            (k, v), = op.items()
            if k in ("Add", "Append"):
                ops.append(f"{k}({v['idx']},{v['id']})")
            elif k == "Del":
                ops.append(f"Del({v['idx']},{v['id']})")
            elif k == "Build":
                o = v["o"]
                ops.append(f"Build({v['idx']},trees={o['n_trees']},cap={o['split_after']},mem={o['mem']})")
            elif k == "ChangeMetric":
                ops.append(f"ChangeMetric({v['idx']},{v['to']})")
            else:
                ops.append(f"{k}({v.get('idx')})")
    return dict(label=h.get("label"), indexes=h["indexes"], ops=ops)


# ---- self-test mutators: each takes the list of events (dicts) and returns a corrupted deep copy or None
def _find(events, pred, rng):
    idx = [i for i, e in enumerate(events) if pred(e)]
    return rng.choice(idx) if idx else None


def _built(e):
    return e.get("ev") == "Build" and e["res"]["c"] == "Ok" and e["st"]["meta"]["has"]


def mut_drop_bucket_item(events, rng):
    i = _find(events, lambda e: _built(e) and any(n["tag"] == "B" and n["items"] for n in e["st"]["nodes"]), rng)
    if i is None:
        return None
    ev = copy.deepcopy(events)
    n = rng.choice([n for n in ev[i]["st"]["nodes"] if n["tag"] == "B" and n["items"]])
    n["items"].pop(rng.randrange(len(n["items"])))
    return ev


def mut_flip_child_kind(events, rng):
    i = _find(events, lambda e: _built(e) and any(n["tag"] == "S" and (n["l"][0] == "T" or n["r"][0] == "T") for n in e["st"]["nodes"]), rng)
    if i is None:
        return None
    ev = copy.deepcopy(events)
    n = rng.choice([n for n in ev[i]["st"]["nodes"] if n["tag"] == "S" and (n["l"][0] == "T" or n["r"][0] == "T")])
    side = "l" if n["l"][0] == "T" else "r"
    n[side][0] = "I"
    return ev


def mut_orphan_node(events, rng):
    i = _find(events, lambda e: _built(e) and e["st"]["nodes"], rng)
    if i is None:
        return None
    ev = copy.deepcopy(events)
    nid = max(n["id"] for n in ev[i]["st"]["nodes"]) + 7
    ev[i]["st"]["nodes"].append({"id": nid, "tag": "B", "items": []})
    return ev


def mut_drop_mark(events, rng):
    i = _find(events, lambda e: e.get("ev") == "Add" and e["res"]["c"] == "Ok" and e["id"] in e["st"]["updated"], rng)
    if i is None:
        return None
    ev = copy.deepcopy(events)
    ev[i]["st"]["updated"].remove(ev[i]["id"])
    return ev


def mut_change_vec_token(events, rng):
    i = _find(events, lambda e: e.get("obs", {}).get("ok") and e["obs"]["vecs"], rng)
    if i is None:
        return None
    ev = copy.deepcopy(events)
    ev[i]["obs"]["vecs"][0][1] += 977
    return ev


def mut_open_stale(events, rng):
    i = _find(events, lambda e: e.get("obs", {}).get("ok") and e["obs"]["open"] == "NeedBuild", rng)
    if i is None:
        return None
    ev = copy.deepcopy(events)
    ev[i]["obs"]["open"] = "Ok"
    return ev


def mut_need_build_false(events, rng):
    i = _find(events, lambda e: e.get("obs", {}).get("ok") and e["obs"]["need_build"], rng)
    if i is None:
        return None
    ev = copy.deepcopy(events)
    ev[i]["obs"]["need_build"] = False
    return ev


def mut_foreign_key(events, rng):
    i = _find(events, lambda e: e.get("ev") in ("Add", "Del", "Build", "Clear"), rng)
    if i is None:
        return None
    ev = copy.deepcopy(events)
    ev[i]["foreign"] = 1
    return ev


def mut_other_changed(events, rng):
    i = _find(events, lambda e: e.get("ev") in ("Add", "Del", "Build", "Clear") and e.get("same"), rng)
    if i is None:
        return None
    # needs the full state of all indexes: take it from the last Commit/Abort if the shapes agree; otherwise flag only
    ev = copy.deepcopy(events)
    e = ev[i]
    nidx = None
    for j in range(i, -1, -1):
        if ev[j].get("ev") == "Reset":
            nidx = len(ev[j]["idxs"])
            break
    e["same"] = False
    if nidx == 1:
        e["all"] = [e["st"]]
        return ev
    # several indexes: the states of all of them as of the last commit/abort of this history, with this event's
    # own index replaced by its recorded state; the recorded flag says that some OTHER index changed
    for j in range(i - 1, -1, -1):
        if ev[j].get("ev") == "Reset":
            return None
        if ev[j].get("ev") in ("Commit", "Abort") and len(ev[j].get("all", [])) == nidx:
            allst = copy.deepcopy(ev[j]["all"])
            allst[e["i"] - 1] = e["st"]
            e["all"] = allst
            return ev
    return None


def mut_flip_side(events, rng):
    def ok(e):
        if not _built(e):
            return False
        return any(n["tag"] == "S" and not n["zero"] and any(v in (1, 2) for v in n["ms"]) for n in e["st"]["nodes"])
    i = _find(events, ok, rng)
    if i is None:
        return None
    ev = copy.deepcopy(events)
    for n in ev[i]["st"]["nodes"]:
        if n["tag"] == "S" and not n["zero"]:
            n["ms"] = [{1: 2, 2: 1}.get(v, v) for v in n["ms"]]
    return ev


def mut_extra_root(events, rng):
    i = _find(events, lambda e: _built(e) and e["st"]["meta"]["roots"] and e.get("obs", {}).get("rd", {}).get("has"), rng)
    if i is None:
        return None
    ev = copy.deepcopy(events)
    ev[i]["obs"]["rd"]["n_trees"] += 1
    return ev


def mut_bucket_overflow(events, rng):
    # claim a smaller capacity than the one used: some bucket must now be over it
    def ok(e):
        return _built(e) and e["args"]["split_after"] > 1 and any(n["tag"] == "B" and len(n["items"]) > 1 for n in e["st"]["nodes"])
    i = _find(events, ok, rng)
    if i is None:
        return None
    ev = copy.deepcopy(events)
    # the capacity history is tracked by the spec; shrink it on every build of that history and index
    h, ix = ev[i]["h"], ev[i]["i"]
    for e in ev:
        if e.get("ev") == "Build" and e["h"] == h and e["i"] == ix:
            e["args"]["split_after"] = 1
    return ev


def mut_rejected_changes(events, rng):
    i = _find(events, lambda e: e.get("ev") in ("Add", "Append") and e["res"]["c"] in ("DimErr", "AppendErr"), rng)
    if i is None:
        return None
    ev = copy.deepcopy(events)
    ev[i]["st"]["updated"].append(99999)
    return ev


def mut_metric_keeps_forest(events, rng):
    i = _find(events, lambda e: e.get("ev") == "ChangeMetric" and e["res"]["c"] == "Ok" and not e["st"]["nodes"], rng)
    if i is None:
        return None
    ev = copy.deepcopy(events)
    ev[i]["st"]["nodes"].append({"id": 0, "tag": "B", "items": []})
    return ev


def _search_results(e):
    out = []
    if e.get("ev") != "Search" or e["q"].get("open") != "Ok":
        return out
    for q in e["q"]["queries"]:
        for g in q["groups"]:
            for ch in g["chains"]:
                for c in ch["chain"]:
                    if c["res"]["c"] == "Ok":
                        out.append((g, ch, c))
    return out


def mut_search_drop_best(events, rng):
    def ok(e):
        return any(g["filter"] == "none" and c["budget"] >= 1 << 30 and len(c["res"]["ids"]) >= 2 and len(set(c["res"]["cls"])) >= 2 and min(c["res"]["cls"]) > 0
                   for g, ch, c in _search_results(e))
    i = _find(events, ok, rng)
    if i is None:
        return None
    ev = copy.deepcopy(events)
    for g, ch, c in _search_results(ev[i]):
        if g["filter"] == "none" and c["budget"] >= 1 << 30 and len(c["res"]["ids"]) >= 2 and len(set(c["res"]["cls"])) >= 2 and min(c["res"]["cls"]) > 0:
            for f in ("ids", "cls", "dok"):
                c["res"][f].pop(0)
            break
    return ev


def mut_search_dup(events, rng):
    i = _find(events, lambda e: any(len(c["res"]["ids"]) >= 2 for g, ch, c in _search_results(e)), rng)
    if i is None:
        return None
    ev = copy.deepcopy(events)
    for g, ch, c in _search_results(ev[i]):
        if len(c["res"]["ids"]) >= 2:
            c["res"]["ids"][1] = c["res"]["ids"][0]
            break
    return ev


def mut_self_lookup(events, rng):
    def ok(e):
        return e.get("ev") == "Search" and e["q"].get("open") == "Ok" and e["q"]["self"] and e["q"]["ntrees"] > 0 and \
            any(n["tag"] == "B" for n in e["st"]["nodes"]) and not any(n["tag"] == "S" for n in e["st"]["nodes"])
    i = _find(events, ok, rng)
    if i is None:
        return None
    ev = copy.deepcopy(events)
    ev[i]["q"]["self"][0][1] = False
    return ev


def _phase_bucket(events, rng, k):
    def ok(e):
        return _built(e) and len(e.get("phases", [])) == 5 and any(n["tag"] == "B" and n["items"] for n in e["phases"][k]["nodes"])
    i = _find(events, ok, rng)
    if i is None:
        return None
    ev = copy.deepcopy(events)
    n = rng.choice([n for n in ev[i]["phases"][k]["nodes"] if n["tag"] == "B" and n["items"]])
    n["items"].pop()
    return ev


def mut_phase_delete(events, rng):
    return _phase_bucket(events, rng, 1)


def mut_phase_insert(events, rng):
    return _phase_bucket(events, rng, 2)


def mut_steps_order(events, rng):
    i = _find(events, lambda e: _built(e) and len(e.get("steps", [])) >= 4, rng)
    if i is None:
        return None
    ev = copy.deepcopy(events)
    ev[i]["steps"][1], ev[i]["steps"][2] = ev[i]["steps"][2], ev[i]["steps"][1]
    return ev


def mut_validator_verdict(events, rng):
    i = _find(events, lambda e: _built(e) and e.get("obs", {}).get("rd", {}).get("valid") == "Ok", rng)
    if i is None:
        return None
    ev = copy.deepcopy(events)
    ev[i]["obs"]["rd"]["valid"] = "Panic"
    return ev


# corruptions of CONFORMANCE data: they must show up as DRIFT lines
DRIFT_MUTATORS = {
    "validator_verdict_flipped": (mut_validator_verdict, ["C01"]),
    "phase_delete_items_altered": (mut_phase_delete, ["C01"]),
    "phase_insert_altered": (mut_phase_insert, ["C01"]),
    "progress_steps_swapped": (mut_steps_order, ["C10"]),
}

MUTATORS = {
    "drop_bucket_item": (mut_drop_bucket_item, ["C01"]),
    "flip_child_kind": (mut_flip_child_kind, ["C01"]),
    "orphan_node": (mut_orphan_node, ["C01"]),
    "drop_updated_mark": (mut_drop_mark, ["C06", "C05"]),
    "change_vector_token": (mut_change_vec_token, ["C05"]),
    "open_while_stale": (mut_open_stale, ["C06"]),
    "need_build_false": (mut_need_build_false, ["C06"]),
    "foreign_key": (mut_foreign_key, ["C07"]),
    "other_index_changed": (mut_other_changed, ["C07"]),
    "flip_margin_sides": (mut_flip_side, ["C04"]),
    "reader_tree_count": (mut_extra_root, ["C15"]),
    "bucket_over_capacity": (mut_bucket_overflow, ["C15"]),
    "rejected_call_changes_db": (mut_rejected_changes, ["C19"]),
    "metric_change_keeps_forest": (mut_metric_keeps_forest, ["C18"]),
    "search_drop_best": (mut_search_drop_best, ["C02"]),
    "search_duplicate": (mut_search_dup, ["C03"]),
    "self_lookup_fails": (mut_self_lookup, ["C04"]),
}


def load_events(path):
    return [json.loads(ln) for ln in open(path)]


def selftest(pid, clean_traces, seed, module="TraceMain.tla", count_as=None, also=None):
    """Corrupt recorded fields of accepted traces; every applicable corruption must be rejected for pid."""
    rng = random.Random(seed)
    d = vk.workdir(f"selftest_{pid}_{os.getpid()}")
    applicable, rejected, missed = [], [], []
    # only corrupt histories that were themselves clean, and keep traces small: take whole-history slices
    pool = []
    for path, bad_h in clean_traces:
        evs = load_events(path)
        cur = []
        for e in evs:
            if e["ev"] == "Reset":
                if cur and cur[0]["h"] not in bad_h:
                    pool.append(cur)
                cur = []
            cur.append(e)
        if cur and cur[0]["h"] not in bad_h:
            pool.append(cur)
    rng.shuffle(pool)
    # histories with rare event kinds first, so that their mutators are applicable
    rare = ("Load", "ChangeMetric", "Search", "Abort")
    pool.sort(key=lambda h: -sum(1 for k in rare if any(e["ev"] == k for e in h)))
    # keep the corrupted traces small: at most 60 histories and about 1.5 MB of events
    kept, size = [], 0
    for h in pool[:60]:
        sz = sum(len(json.dumps(e)) for e in h)
        if kept and size + sz > 1_500_000:
            continue
        kept.append(h)
        size += sz
    everything = pool
    pool = kept
    flat = [e for h in pool for e in h]
    for name, (fn, props) in MUTATORS.items():
        if pid not in props:
            continue
        mutated = fn(flat, rng)
        if mutated is None:
            # look for a clean history elsewhere in this run on which the corruption applies
            for h in everything:
                if len(h) < 400 and fn(h, rng) is not None:
                    mutated = fn(flat + h, rng)
                    if mutated is None:
                        mutated = fn(h, rng)
                    break
        if mutated is None:
            continue
        applicable.append(name)
        path = f"{d}/{name}.ndjson"
        with open(path, "w") as f:
            for e in mutated:
                f.write(json.dumps(e) + "\n")
        viols, _, _, _ = vk.run_trace(module, path)
        if any(v["prop"] in (pid, count_as) or (also and also(v["prop"], v["conj"])) for v in viols):
            rejected.append(name)
        else:
            missed.append(name)
    for name, (fn, props) in DRIFT_MUTATORS.items():
        if pid not in props and count_as not in props:
            continue
        mutated = fn(flat, rng)
        if mutated is None:
            for h in everything:
                if len(h) < 400 and fn(h, rng) is not None:
                    mutated = fn(h, rng)
                    break
        if mutated is None:
            continue
        applicable.append(name)
        path = f"{d}/{name}.ndjson"
        with open(path, "w") as f:
            for e in mutated:
                f.write(json.dumps(e) + "\n")
        _, drifts, _, _ = vk.run_trace(module, path)
        (rejected if drifts else missed).append(name)
    shutil.rmtree(d, ignore_errors=True)
    return dict(applicable=applicable, rejected=rejected, missed=missed)


def verdict(pid, results, hist_of, known, also=None, all_kinds=()):
    """Split the violations tagged pid into known findings and new ones. `also`: properties whose conjuncts,
    when violated on THIS check's own driver, are violations of pid as well (e.g. C14 = C01 + C02 under a memory hint);
    a callable (prop, conj) -> bool."""
    mine, others = [], 0
    for r in results:
        for v in r["viols"][:5000]:
            if v["prop"] == pid:
                mine.append((r, v))
            elif v["prop"] == "*":
                # the driver of THIS check could not finish an operation (process killed from inside the code under test, or hung)
                mine.append((r, dict(v, prop=pid)))
            elif r["job"].get("kind") in all_kinds or (also and also(v["prop"], v["conj"])):
                mine.append((r, dict(v, conj=f"{v['prop']}:{v['conj']}", prop=pid)))
            else:
                others += 1
                if others <= 10:
                    vk.log(f"[other] {v['prop']} {v['conj']} at history {v['h']} op {v['k']} ({v['ev']}) in job {r['job']['name']}: not counted for {pid}")
    known_hits, new = {}, []
    for r, v in mine:
        h = hist_of(r, v["h"])
        k = vk.match_known(v, h, known)
        if k:
            known_hits.setdefault(k["id"], [k, 0])[1] += 1
        else:
            new.append((r, v, h))
    return mine, known_hits, new, others


def run_main(pid, tier, seed, replay=None):
    P = MAIN[pid]
    t0 = time.time()
    vk.TRACE_TIMEOUT = 3600 if tier == "thorough" else 1200
    vk.build_harness()
    known = vk.load_known()
    module = P.get("module", "TraceMain.tla")

    if replay:
        payload = json.load(open(replay))
        d = vk.workdir(f"replay_{pid}_{os.getpid()}")
        if payload.get("history", {}).get("job_args"):
            hh = payload["history"]
            try:
                vk.run_harness(hh["job_args"] + ["--out", f"{d}/r"])
            except vk.HarnessCrash as hc:
                vk.log(f"replay: {hc}")
                shutil.rmtree(d, ignore_errors=True)
                print(f"VIOLATION property={pid} replay={replay}")
                return 1
            viols, _, _, _ = vk.run_trace(hh["module"], f"{d}/r.ndjson")
            shutil.rmtree(d, ignore_errors=True)
            if any(v["prop"] in (pid, "*") for v in viols):
                print(f"VIOLATION property={pid} replay={replay}")
                return 1
            vk.log("replay: no violation (multi-threaded runs are not deterministic: absence on one re-run proves nothing)")
            return 0
        if payload.get("history", {}).get("label") == "sched":
            json.dump(payload["history"]["line"], open(f"{d}/line.json", "w"))
            vk.run_harness(["nodeids-replay", "--file", f"{d}/line.json", "--out", f"{d}/r"])
            viols, _, _, _ = vk.run_trace("TraceIds.tla", f"{d}/r.ndjson")
            shutil.rmtree(d, ignore_errors=True)
            if any(v["prop"] in (pid, "*") for v in viols):
                print(f"VIOLATION property={pid} replay={replay}")
                return 1
            vk.log("replay: no violation")
            return 0
        hp = f"{d}/h.json"
        json.dump([payload["history"]], open(hp, "w"))
        vk.run_harness(["replay", "--hist", hp, "--threads", str(payload.get("threads", 1)), "--out", f"{d}/r"])
        viols, _, _, _ = vk.run_trace(module, f"{d}/r.ndjson")
        also = P.get("also")
        mine = [v for v in viols if v["prop"] in (pid, "*") or (also and also(v["prop"], v["conj"]))]
        shutil.rmtree(d, ignore_errors=True)
        if mine:
            for v in mine[:5]:
                vk.log(f"  {v['prop']} {v['conj']} at op {v['k']} ({v['ev']})")
            print(f"VIOLATION property={pid} replay={replay}")
            return 1
        vk.log("replay: no violation")
        return 0

    # ---- 1. model checking of the design
    mc_res = []
    for mc in P["mc"].get(tier, P["mc"].get("quick", [])):
        r = vk.run_mc(mc["module"], mc["cfg"], workers=mc.get("workers", 8), timeout=mc.get("timeout", 900),
                      overrides=mc.get("overrides"), tag=mc.get("tag"), heap=mc.get("heap", "12g"), simulate=mc.get("simulate"))
        expect = mc.get("expect_violation", False)
        vk.log(f"[mc] {r['cfg']}: {r['states']} distinct states, {r['transitions']} transitions, "
               f"{'VIOLATED ' + str(r['violated']) if r['violated'] else ('ok' if r.get('complete', True) else 'no violation within the time bound (not exhaustive)')} ({r['wall']}s){' [sensitivity run]' if expect else ''}")
        if expect and not r["violated"]:
            raise vk.ToolError(f"sensitivity run {r['cfg']} found no violation: the model has lost its teeth")
        if not expect and r["violated"]:
            vk.log(r["out"][-6000:])
            raise vk.ToolError(f"the design model violates {r['violated']} in {r['cfg']}: the specification or the claim is wrong")
        r.pop("out")
        mc_res.append(dict(r, sensitivity=expect))
    proofs = []
    for pm in P.get("proofs", {}).get(tier, []):
        pr = vk.run_proof(pm)
        vk.log(f"[proof] {pm}: {pr['obligations_proved']} obligations proved by tlapm ({pr['wall']}s)")
        proofs.append(pr)

    # ---- 2. real executions, validated against the trace spec
    jobs = []
    first = 0
    for tr in P["traces"][tier]:
        for j in range(tr["jobs"]):
            th = tr.get("threads", THREADS)
            sd = str(seed * 7919 + j + tr.get("seed_off", 0))
            if "family" in tr:
                name = tr["family"]
                a = ["family", "--kind", tr["family"], "--seed", sd, "--count", str(tr["count"]), "--threads", str(th[j % len(th)]),
                     "--first", str(first)] + (["--thorough"] if tier == "thorough" else [])
            else:
                name = tr["profile"]
                a = ["gen", "--profile", tr["profile"], "--seed", sd, "--count", str(tr["count"]), "--threads", str(th[j % len(th)]),
                     "--first", str(first)]
            jobs.append(dict(name=f"{name}_{j}", profile=name, threads=th[j % len(th)], args=a + tr.get("extra", [])))
            first += tr["count"] * tr.get("hist_per_count", 1) + 1
    for x in P.get("extra_jobs", {}).get(tier, []):
        jobs.append(dict(name=x["name"], profile=x["name"], threads=0, kind=x.get("kind"), module=x.get("module"), heap=x.get("heap", "3g"),
                         args=[a for a in x["args"] if a != "--salt" and not (x["args"][max(0, x["args"].index(a) - 1)] == "--salt")]
                         + ["--seed", str(seed * 131 + (int(x["args"][x["args"].index("--salt") + 1]) if "--salt" in x["args"] else 0))]
                         + (["--thorough"] if tier == "thorough" else [])))
    model_stats = None
    if P.get("model_replay", {}).get(tier):
        mr = P["model_replay"][tier]
        os.makedirs(f"{vk.WORK}/model", exist_ok=True)
        mfile = f"{vk.WORK}/model/{pid}_{os.getpid()}.jsonl"
        kept, total = vk.model_histories(mfile, num=mr["num"], depth=mr.get("depth", 80), seed=seed, max_histories=mr["max"])
        model_stats = dict(behaviours_printed=total, histories_replayed=kept)
        vk.log(f"[replay] {kept} maximal histories out of {total} behaviours printed by TLC (Replay.tla) are executed on the code")
        jobs.append(dict(name="model", profile="model", threads=1, args=["from-model", "--file", mfile, "--seed", str(seed), "--first", str(first)]))
    results, d = vk.gen_and_validate(jobs, module=module, parallel=P.get("parallel", 8))
    hists_cache = {}

    def hist_of(r, hno):
        if r.get("crashed"):
            return dict(label="crashed:" + str(r["job"].get("kind") or r["job"]["args"][0]), indexes=[], ops=[], job_args=r["job"]["args"], module=r["job"].get("module", module))
        if r["job"].get("kind") in ("txn", "crash", "fixture", "upgrade", "bq", "kernel", "tmpn"):
            return dict(label=r["job"]["kind"], indexes=[], ops=[], job_args=r["job"]["args"], module=r["job"]["module"])
        if r["job"].get("kind") == "sched":
            key = r["prefix"] + "#sched"
            if key not in hists_cache:
                with open(r["prefix"] + ".ndjson") as f:
                    hists_cache[key] = f.readlines()
            lines = hists_cache[key]
            if 0 <= hno < len(lines):
                e = json.loads(lines[hno])
                if e["n"] == hno:
                    return dict(label="sched", indexes=[], ops=[], line=e)
            return None
        key = r["prefix"]
        if key not in hists_cache:
            hists_cache[key] = json.load(open(key + ".hist.json"))
        k = hno - r["stats"]["first_no"]
        hs = hists_cache[key]
        return hs[k] if 0 <= k < len(hs) else None

    mine, known_hits, new, others = verdict(pid, results, hist_of, known, P.get("also"), P.get("all_kinds", ()))
    n_hist = sum(r["stats"]["histories"] for r in results)
    n_events = sum(r["stats"]["events"] for r in results)
    drift = sum(len(r["drifts"]) for r in results)

    # ---- 3. binding self-test on clean traces (jobs whose process was killed have no trace to corrupt)
    live = [r for r in results if not r.get("crashed")]
    bad_by_trace = []
    for r in live:
        if r["job"].get("kind") in ("sched", "txn", "crash", "upgrade", "bq", "kernel", "tmpn"):
            continue
        bad_h = {v["h"] for v in r["viols"]}
        bad_by_trace.append((r["prefix"] + ".ndjson", bad_h))
    st = selftest(P.get("selftest_as", pid), bad_by_trace, seed, module=module, count_as=pid, also=P.get("also"))
    if module == "TraceMain.tla" and P["traces"].get(tier):
        # the harness process is killed (abort) inside a build of a small run: the history must come back as a Crash event
        dd = vk.workdir(f"selftest_crash_{os.getpid()}")
        stc = vk.run_harness(["gen", "--profile", "forest", "--seed", "5", "--count", "6", "--threads", "1", "--first", "900000", "--out", f"{dd}/c"],
                             env={"VERIF_TEST_CRASH_AT": "900003:2"})
        vv, _, _, _ = vk.run_trace("TraceMain.tla", f"{dd}/c.ndjson")
        st["applicable"].append("process_killed_inside_a_build")
        ok = stc.get("crashed_histories") and any(v["prop"] == "*" and v["h"] == 900003 for v in vv)
        (st["rejected"] if ok else st["missed"]).append("process_killed_inside_a_build")
        shutil.rmtree(dd, ignore_errors=True)
    for r in live:
        if r["job"].get("kind") == "sched":
            # duplicate one returned id / drop a step in recorded schedules: both must be noticed
            dd = vk.workdir(f"selftest_sched_{os.getpid()}")
            lines = [json.loads(ln) for _, ln in zip(range(300), open(r["prefix"] + ".ndjson"))]
            cand = [e for e in lines if len(e["rets"]) >= 2]
            if cand:
                e = copy.deepcopy(cand[len(cand) // 2])
                e["rets"][1][1] = e["rets"][0][1]
                e2 = copy.deepcopy(cand[0])
                e2["steps"].pop(1)
                open(f"{dd}/dup.ndjson", "w").write(json.dumps(e) + "\n" + json.dumps(e2) + "\n")
                vv, dr, _, _ = vk.run_trace(r["job"]["module"], f"{dd}/dup.ndjson")
                st["applicable"] += ["schedule_duplicate_id", "schedule_step_removed"]
                (st["rejected"] if any(v["conj"] == "id_handed_out_twice" for v in vv) else st["missed"]).append("schedule_duplicate_id")
                (st["rejected"] if dr else st["missed"]).append("schedule_step_removed")
            shutil.rmtree(dd, ignore_errors=True)
    for r in live:
        if r["job"].get("kind") == "tmpn":
            # a recorded to_insert that keeps a removed entry / a missing to_delete id: both must drift
            dd = vk.workdir(f"selftest_tmpn_{os.getpid()}")
            lines = [json.loads(ln) for _, ln in zip(range(3000), open(r["prefix"] + ".ndjson"))]
            cand = [e for e in lines if e["res"] == "Ok" and e["del"] and e["ins"]]
            if cand:
                e = copy.deepcopy(cand[len(cand) // 2])
                e["ins"].append([e["del"][0], "x"])
                e2 = copy.deepcopy(cand[0])
                e2["del"].pop(0)
                open(f"{dd}/m.ndjson", "w").write(json.dumps(e) + "\n" + json.dumps(e2) + "\n")
                _, dr, _, _ = vk.run_trace(r["job"]["module"], f"{dd}/m.ndjson")
                st["applicable"] += ["buffer_keeps_a_removed_entry", "buffer_forgets_a_deletion"]
                conjs = {x["conj"] for x in dr}
                (st["rejected"] if "to_insert_differs_from_the_specification" in conjs else st["missed"]).append("buffer_keeps_a_removed_entry")
                (st["rejected"] if "to_delete_differs_from_the_specification" in conjs else st["missed"]).append("buffer_forgets_a_deletion")
            shutil.rmtree(dd, ignore_errors=True)
    for r in live:
        if r["job"].get("kind") in ("txn", "crash") and not r.get("crashed"):
            dd = vk.workdir(f"selftest_txn_{os.getpid()}")
            evs = [json.loads(ln) for ln in open(r["prefix"] + ".ndjson")]
            first_h = evs[0]["h"]
            evs = [e for e in evs if e["h"] == first_h]
            muts = {}
            if r["job"]["kind"] == "txn":
                obs = [i for i, e in enumerate(evs) if e["ev"] == "R.Observe" and e["v"] > 0]
                if obs:
                    a = copy.deepcopy(evs); a[obs[0]]["v"] = 99; muts["observe_future_version"] = a
                    b = copy.deepcopy(evs)
                    if b[obs[-1]]["st"]["store"]:
                        b[obs[-1]]["st"]["store"].pop(0); muts["observe_mixture"] = b
                    two = [i for i in obs if any(j < i and evs[j]["ev"] == "R.Observe" and evs[j]["r"] == evs[i]["r"] and not any(evs[k]["ev"] == "R.BeginCall" and evs[k]["r"] == evs[i]["r"] for k in range(j, i)) for j in obs)]
                    if two:
                        c = copy.deepcopy(evs); c[two[0]]["v"] = max(1, c[two[0]]["v"] - 1) if c[two[0]]["v"] > 1 else c[two[0]]["v"] + 1; muts["snapshot_moves"] = c
            else:
                rec = [i for i, e in enumerate(evs) if e["ev"] == "C.Recovered" and e["v"] > 0]
                if rec:
                    a = copy.deepcopy(evs); a[rec[0]]["v"] = a[rec[0]]["acked"] + 2; muts["recovered_wrong_version"] = a
                    b = copy.deepcopy(evs)
                    if b[rec[-1]]["st"]["nodes"]:
                        b[rec[-1]]["st"]["nodes"].pop(); muts["recovered_mixture"] = b
            for name, m in muts.items():
                open(f"{dd}/{name}.ndjson", "w").write("\n".join(json.dumps(e) for e in m) + "\n")
                vv, _, _, _ = vk.run_trace(r["job"]["module"], f"{dd}/{name}.ndjson")
                st["applicable"].append(name)
                (st["rejected"] if any(v["prop"] == pid for v in vv) else st["missed"]).append(name)
            shutil.rmtree(dd, ignore_errors=True)
            break
    for r in live:
        kind = r["job"].get("kind")
        if kind in ("upgrade", "bq", "kernel"):
            dd = vk.workdir(f"selftest_{kind}_{os.getpid()}")
            evs = [json.loads(ln) for _, ln in zip(range(40), open(r["prefix"] + ".ndjson"))]
            muts = {}
            if kind == "upgrade":
                a = copy.deepcopy(evs[:2]); a[0]["diff_keys"] = 1; muts["upgrade_bytes_differ"] = a
                cand = [i for i, e in enumerate(evs) if e["ev"] == "Up04" and any(x["store"] for x in e["post"])]
                if cand:
                    b = copy.deepcopy(evs[cand[0]:cand[0] + 1])
                    [x for x in b[0]["post"] if x["store"]][0]["store"].pop()
                    muts["upgrade_loses_an_item"] = b
                cand = [i for i, e in enumerate(evs) if e["ev"] == "Up05" and any(x["meta"]["has"] for x in e["post"])]
                if cand:
                    c = copy.deepcopy(evs[cand[0]:cand[0] + 1])
                    [x for x in c[0]["post"] if x["meta"]["has"]][0]["version"] = []
                    muts["version_record_missing"] = c
            elif kind == "bq":
                cand = [e for e in evs if e["ev"] == "BQ" and e["d"] >= 3]
                a = copy.deepcopy(cand[:1]); a[0]["conv"][0]["to_vec"][1] = 1 - a[0]["conv"][0]["to_vec"][1] if a[0]["conv"][0]["to_vec"][1] in (0, 1) else 0
                muts["readback_sign_flipped"] = a
                b = copy.deepcopy(cand[:1]); b[0]["pairs"][-1][1] += 40; b[0]["pairs"][-1][2] += 40; muts["distance_off"] = b
                c = copy.deepcopy(cand[:1]); c[0]["conv"][0]["iter"][-1] = 1; muts["padding_bit_set"] = c
            else:
                cand = [e for e in evs if e["ev"] == "Kernel" and e["len"] >= 20]
                a = copy.deepcopy(cand[:1]); a[0]["cases"][0]["dot"][0] += 1; muts["dot_product_off_by_one"] = a
                b = copy.deepcopy(cand[:1]); b[0]["cases"][-1]["euc"][1] -= 2; muts["euclidean_asymmetric"] = b
            for name, m in muts.items():
                open(f"{dd}/{name}.ndjson", "w").write("\n".join(json.dumps(e) for e in m) + "\n")
                vv, _, _, _ = vk.run_trace(r["job"]["module"], f"{dd}/{name}.ndjson")
                st["applicable"].append(name)
                (st["rejected"] if any(v["prop"] == pid for v in vv) else st["missed"]).append(name)
            shutil.rmtree(dd, ignore_errors=True)
            break
    vk.log(f"[selftest] corruptions applicable={st['applicable']} rejected={st['rejected']} missed={st['missed']}")

    # ---- 4. samples and evidence
    samples = []
    for r in [x for x in live if x["job"].get("kind") not in ("sched", "txn", "crash", "upgrade", "bq", "kernel", "tmpn")][:3]:
        hs = json.load(open(r["prefix"] + ".hist.json"))
        if hs:
            samples.append(summarize_history(hs[min(1, len(hs) - 1)]))
    for r in [x for x in live if x["job"].get("kind") == "sched"][:1]:
        with open(r["prefix"] + ".ndjson") as f:
            samples.append({"schedule": json.loads(f.readline())})
    for r in [x for x in live if x["job"].get("kind") in ("upgrade", "bq", "kernel")][:2]:
        with open(r["prefix"] + ".ndjson") as f:
            e = json.loads(f.readline())
        samples.append({"case": json.loads(json.dumps(e)[:1500] + '"') if False else {k: (v if len(json.dumps(v)) < 600 else str(v)[:600] + "...") for k, v in e.items()}})
    with open((live or results)[0]["prefix"] + ".ndjson") as f:
        for ln in f:
            e = json.loads(ln)
            if e["ev"] == P.get("sample_event", "Build"):
                samples.append({"trace_event": {k: e[k] for k in e if k not in ("obs", "q")}})
                break
    for r in [x for x in live if x["job"].get("kind") in ("txn", "crash")][:1]:
        with open(r["prefix"] + ".ndjson") as f:
            evs = [json.loads(ln) for _, ln in zip(range(400), f)]
        samples.append({"event_sequence": [(e["ev"], e.get("v", e.get("r"))) for e in evs[:40]]})
    distinct = P["distinct"](results)
    coverage = dict(
        states=max(1, sum(m["states"] for m in mc_res if not m["sensitivity"])),
        transitions=max(1, sum(m["transitions"] for m in mc_res if not m["sensitivity"])),
        traces_validated_against_impl=n_hist,
        samples=samples,
        evaluations=n_events,
        distinct_nontrivial=distinct["n"],
        rule=distinct["rule"],
        model_checking_runs=mc_res,
        deductive_proofs=proofs,
        trace_lines=sum(r["lines"] for r in results),
        builds_ok=sum(r["stats"]["builds_ok"] for r in results),
        builds_failed=sum(r["stats"]["builds_err"] for r in results),
        thread_pool_sizes=sorted({j["threads"] for j in jobs}),
        violations_of_this_property=len(mine),
        violations_of_other_properties_seen=others,
        known_findings_matched={k: v[1] for k, v in known_hits.items()},
        conformance_drift=drift,
        spec_to_impl_replay=model_stats,
        selftest=st,
        host=vk.host_info(),
        exhaustive=False,
    )
    assumptions = P.get("assumptions", []) + [
        "LMDB/heed transactions behave as documented (trusted)",
        "roaring bitmap portable serialisation is decoded by the roaring crate in the reference decoder",
        "little-endian x86-64 host",
    ]

    rc = 0
    for kid, (k, n) in known_hits.items():
        print(f"KNOWN-FINDING: property={pid} {k['what']} [{kid}] ({n} occurrences this run)")
    if (st["missed"] or not st["applicable"]) and not new:
        # (with violations all over the traces there may be no clean history left to corrupt: the violation is reported)
        vk.write_evidence(pid, tier, seed, P.get("level", "model_checking"), coverage, time.time() - t0, len(new), assumptions)
        shutil.rmtree(d, ignore_errors=True)
        raise vk.ToolError(f"self-test failed: corruptions not rejected: {st['missed']} (applicable: {st['applicable']})")
    if new:
        # report the earliest violation of the shortest history, as a prefix of its operations
        new.sort(key=lambda x: (len(x[2]["ops"]) if x[2] else 0, x[1]["k"]))
        r, v, h = new[0]
        hh = copy.deepcopy(h)
        hh["ops"] = hh["ops"][: v["k"] + 1]
        path = vk.write_replay(pid, dict(property=pid, violation=v, history=hh, threads=r["job"]["threads"], profile=r["job"]["profile"]))
        sigs = sorted({(x[1]["conj"], x[1]["ev"]) for x in new})
        vk.log(f"[{pid}] {len(new)} violations, distinct conjuncts: {sigs[:12]}")
        print(f"VIOLATION property={pid} replay={path}")
        rc = 1
    vk.write_evidence(pid, tier, seed, P.get("level", "model_checking"), coverage, time.time() - t0, len(new), assumptions)
    shutil.rmtree(d, ignore_errors=True)
    vk.log(f"[{pid}] {n_hist} histories, {n_events} events validated, {len(mine)} violations of {pid} "
           f"({len(new)} new), {others} of other properties, drift {drift}")
    return rc


def distinct_forests(results):
    return dict(n=sum(r["stats"]["distinct_forests"] for r in results),
                rule="histories are seeded random op sequences (profiles in harness/src/gen.rs); a case is non-trivial when a "
                     "successful build left at least one split node; distinct = distinct projected forests (hash of the node "
                     "table) per job, summed over jobs")


def distinct_events(results):
    return dict(n=sum(r["stats"]["distinct_forests"] for r in results) + sum(r["stats"]["histories"] for r in results),
                rule="one case per validated history plus one per distinct projected forest after a successful build")


def mcf(tag, overrides=None, expect=False, timeout=900, cfg="MC_Forest.cfg"):
    return dict(module="Arroy.tla", cfg=cfg, tag=tag, overrides=overrides or {}, expect_violation=expect, timeout=timeout)


def mc(cfg, tag, overrides=None, expect=False, timeout=900):
    return dict(module="Arroy.tla", cfg=cfg, tag=tag, overrides=overrides or {}, expect_violation=expect, timeout=timeout)


SEARCH_Q = [mc("MC_Search.cfg", "search_theorems_1tree")]
SEARCH_T = [mc("MC_Search.cfg", "search_theorems_1tree_3builds", {"MaxBuilds": "3"}, timeout=1800), mc("MC_Search2.cfg", "search_theorems_2trees", timeout=1800),
            mc("MC_Search.cfg", "sens_query_routed_to_the_wrong_side", {"QueryFlip": "TRUE"}, expect=True)]
FOREST_Q = [mcf("forest_1tree_2builds")]
FOREST_T = [mcf("forest_1tree_3builds", {"MaxBuilds": "3"}),
            mcf("forest_2trees", {"Reqs": "{0, 2}", "Toks": "{\"a\"}"}, timeout=1500),
            dict(mcf("forest_2trees_2tokens_4builds_random_walks", {"Reqs": "{0, 2, 3}", "Caps": "{1, 2}", "MaxBuilds": "4", "Ids": "{1, 2, 3, 4}"}, timeout=900),
                 simulate=dict(num=4000, depth=150))]

MAIN = {
    "C01": dict(
        mc=dict(quick=FOREST_Q,
                thorough=FOREST_T + [mcf("sens_insert_as_coded", {"AsCodedInsert": "TRUE", "Reqs": "{1, 2}"}, expect=True),
                                     mcf("sens_deltree_as_coded", {"AsCodedDelTree": "TRUE", "Reqs": "{1, 2}"}, expect=True)]),
        traces=dict(quick=[dict(profile="forest", jobs=8, count=45)],
                    thorough=[dict(profile="forest", jobs=16, count=700), dict(profile="options", jobs=8, count=400, seed_off=100),
                              dict(family="mem", jobs=4, count=6, seed_off=200), dict(profile="parallel", jobs=4, count=200, seed_off=300, threads=[2, 4, 8, 16])]),
        model_replay=dict(quick=dict(num=150, max=120), thorough=dict(num=3000, max=2500)),
        distinct=distinct_forests,
    ),
    "C04": dict(
        mc=dict(quick=SEARCH_Q, thorough=SEARCH_T),
        traces=dict(quick=[dict(profile="search", jobs=8, count=30), dict(family="skewed", jobs=4, count=5, seed_off=60), dict(family="overwrite", jobs=4, count=12, seed_off=80)],
                    thorough=[dict(profile="search", jobs=16, count=400), dict(profile="forest", jobs=8, count=400, seed_off=100),
                              dict(family="skewed", jobs=8, count=15, seed_off=60), dict(family="overwrite", jobs=8, count=150, seed_off=80)]),
        distinct=distinct_forests, sample_event="Build",
    ),
    "C05": dict(
        mc=dict(quick=[mc("MC_Store.cfg", "store_txn")], thorough=[mc("MC_Store.cfg", "store_txn_3ids", {"Ids": "{1, 2, 3}", "MaxBuilds": "2", "Toks": "{\"a\"}"}, timeout=600)]),
        traces=dict(quick=[dict(profile="store", jobs=8, count=60)],
                    thorough=[dict(profile="store", jobs=16, count=900), dict(profile="metric", jobs=4, count=300, seed_off=100)]),
        model_replay=dict(quick=dict(num=150, max=120), thorough=dict(num=3000, max=2500)),
        distinct=distinct_events, sample_event="Add",
    ),
    "C06": dict(
        mc=dict(quick=[mc("MC_Store.cfg", "store_txn")], thorough=[mc("MC_Store.cfg", "store_txn_3ids", {"Ids": "{1, 2, 3}", "MaxBuilds": "2", "Toks": "{\"a\"}"}, timeout=600),
                                                                  mc("MC_Metric.cfg", "metric")]),
        traces=dict(quick=[dict(profile="store", jobs=6, count=60, seed_off=7), dict(profile="metric", jobs=2, count=40, seed_off=30)],
                    thorough=[dict(profile="store", jobs=16, count=900, seed_off=7), dict(profile="multi", jobs=4, count=300, seed_off=100),
                              dict(profile="metric", jobs=4, count=300, seed_off=30)]),
        model_replay=dict(quick=dict(num=150, max=120), thorough=dict(num=3000, max=2500)),
        distinct=distinct_events, sample_event="Del",
    ),
    "C07": dict(
        # "...hence with the same items, forest and query answers": what opening and observing the indexes says after each
        # commit of this driver (C06/C08 conjuncts) counts too, not only the byte comparison
        also=lambda prop, conj: prop == "C06" or (prop == "C08" and conj.startswith("reader_after_")),
        mc=dict(quick=[mc("MC_Multi.cfg", "multi")], thorough=[mc("MC_Multi.cfg", "multi_2toks", {"Toks": "{\"a\", \"b\"}"}, timeout=1800)]),
        traces=dict(quick=[dict(profile="multi", jobs=6, count=45), dict(family="neighbours", jobs=4, count=80, seed_off=70)],
                    thorough=[dict(profile="multi", jobs=16, count=700), dict(family="neighbours", jobs=8, count=1500, seed_off=70)]),
        model_replay=dict(quick=dict(num=150, max=120), thorough=dict(num=3000, max=2500)),
        distinct=distinct_events, sample_event="Clear",
    ),
    "C15": dict(
        mc=dict(quick=[mc("MC_Trees.cfg", "trees")], thorough=[mc("MC_Trees.cfg", "trees"), mc("MC_Trees.cfg", "trees_dim1", {"Dim": "1"}),
                                                               mc("MC_Trees.cfg", "sens_auto_zero", {"Dim": "1", "AtLeastOne": "FALSE"}, expect=True)] + FOREST_T),
        traces=dict(quick=[dict(profile="options", jobs=8, count=45)], thorough=[dict(profile="options", jobs=16, count=700)]),
        model_replay=dict(quick=dict(num=150, max=120), thorough=dict(num=3000, max=2500)),
        distinct=distinct_forests,
    ),
    "C18": dict(
        mc=dict(quick=[mc("MC_Metric.cfg", "metric")], thorough=[mc("MC_Metric.cfg", "metric_2toks", {"Toks": "{\"a\", \"b\"}"}, timeout=1800)]),
        traces=dict(quick=[dict(profile="metric", jobs=8, count=40)], thorough=[dict(profile="metric", jobs=16, count=600)]),
        distinct=distinct_events, sample_event="ChangeMetric",
        # "after building, the index is valid (C01), searchable under the new metric (C02)"
        also=lambda prop, conj: prop in ("C01", "C02"),
    ),
    "C19": dict(
        mc=dict(quick=[mc("MC_Store.cfg", "store_txn"), mc("MC_Multi.cfg", "multi")],
                thorough=[mc("MC_Store.cfg", "store_txn_3ids", {"Ids": "{1, 2, 3}", "MaxBuilds": "2", "Toks": "{\"a\"}"}, timeout=600), mc("MC_Multi.cfg", "multi")]),
        traces=dict(quick=[dict(profile="store", jobs=6, count=60, seed_off=13), dict(profile="search", jobs=2, count=30, seed_off=13)],
                    thorough=[dict(profile="store", jobs=16, count=900, seed_off=13), dict(profile="search", jobs=4, count=300, seed_off=13)]),
        model_replay=dict(quick=dict(num=150, max=120), thorough=dict(num=3000, max=2500)),
        distinct=distinct_events, sample_event="Append",
    ),
    "C02": dict(
        mc=dict(quick=SEARCH_Q, thorough=SEARCH_T),
        traces=dict(quick=[dict(profile="search", jobs=8, count=30, seed_off=3)], thorough=[dict(profile="search", jobs=16, count=500, seed_off=3)]),
        distinct=distinct_forests, sample_event="Build",
    ),
    "C03": dict(
        mc=dict(quick=SEARCH_Q, thorough=SEARCH_T),
        traces=dict(quick=[dict(profile="search", jobs=8, count=30, seed_off=5)], thorough=[dict(profile="search", jobs=16, count=500, seed_off=5)]),
        distinct=distinct_forests, sample_event="Build",
    ),
}

def mut_fd_leak(events, rng):
    i = _find(events, lambda e: e.get("ev") == "Build", rng)
    if i is None:
        return None
    ev = copy.deepcopy(events)
    ev[i]["fd_delta"] = 1
    return ev


def mut_cancel_success(events, rng):
    i = _find(events, lambda e: e.get("ev") == "Build" and e["args"]["cancel_at"] >= 0 and e["res"]["c"] == "Cancelled", rng)
    if i is None:
        return None
    ev = copy.deepcopy(events)
    ev[i]["res"] = {"c": "Panic", "msg": "x"}
    return ev


def mut_abort_trace(events, rng):
    i = _find(events, lambda e: e.get("ev") == "Abort" and e["all"] and e["all"][0]["store"], rng)
    if i is None:
        return None
    ev = copy.deepcopy(events)
    ev[i]["all"][0]["store"].pop()
    return ev


def mut_noprogress(events, rng):
    i = _find(events, lambda e: e.get("ev") == "Build" and e["res"]["c"] == "Ok" and e["args"]["cancel_at"] < 0, rng)
    if i is None:
        return None
    ev = copy.deepcopy(events)
    ev[i]["res"] = {"c": "NoProgress"}
    return ev


MUTATORS.update({
    "fd_leak": (mut_fd_leak, ["C10"]),
    "cancel_panics": (mut_cancel_success, ["C10"]),
    "abort_leaves_trace": (mut_abort_trace, ["C10", "C08"]),
    "build_never_ends": (mut_noprogress, ["C14", "C20"]),
})
MUTATORS["drop_bucket_item"][1].extend(["C13", "C14", "C20"])

MAIN.update({
    "C10": dict(
        mc=dict(quick=[mc("MC_Forest.cfg", "cancel_txn", {"WithCancel": "TRUE", "WithTxn": "TRUE", "Ids": "{1, 2, 3}", "Toks": "{\"a\"}"})],
                thorough=[mc("MC_Forest.cfg", "cancel_txn_2toks", {"WithCancel": "TRUE", "WithTxn": "TRUE"}, timeout=700)]),
        traces=dict(quick=[dict(family="cancel", jobs=6, count=2, threads=[1, 1, 1, 4, 1, 2]), dict(family="faults", jobs=4, count=2, hist_per_count=90, seed_off=50)],
                    thorough=[dict(family="cancel", jobs=12, count=2, threads=[1, 1, 4, 1, 2, 16]), dict(family="faults", jobs=4, count=6, hist_per_count=90, seed_off=50)]),
        distinct=distinct_events, sample_event="Build",
        also=lambda prop, conj: prop in ("C01", "C02", "C08") or (prop == "C14" and conj.startswith("build_failed")),
        level="fault_enumeration",
    ),
    "C14": dict(
        mc=dict(quick=[mc("MC_Batch.cfg", "batch_liveness")],
                thorough=[mc("MC_Batch.cfg", "batch_liveness"), mc("MC_Batch.cfg", "batch_liveness_cap1_2", {"Caps": "{1, 2}", "MaxBuilds": "2", "Ids": "{1, 2, 3}"}, timeout=900),
                          mc("MC_Batch.cfg", "sens_batch_as_coded", {"AsCodedBatch": "TRUE"}, expect=True)]),
        traces=dict(quick=[dict(family="mem", jobs=8, count=2, threads=[1, 1, 2, 1])], thorough=[dict(family="mem", jobs=8, count=12, threads=[1, 1, 2, 4])]),
        distinct=distinct_forests, sample_event="Build",
        also=lambda prop, conj: prop in ("C01", "C02"),
    ),
    "C20": dict(
        mc=dict(quick=FOREST_Q, thorough=FOREST_T),
        traces=dict(quick=[dict(family="degenerate", jobs=8, count=6)], thorough=[dict(family="degenerate", jobs=16, count=60)]),
        distinct=distinct_forests, sample_event="Build",
        also=lambda prop, conj: prop in ("C01", "C05", "C14") or (prop == "C03" and conj != "reported_distance_wrong"),
    ),
})

def mcn(tag, overrides=None, expect=False, timeout=900):
    return dict(module="NodeIds.tla", cfg="MC_NodeIds.cfg", tag=tag, overrides=overrides or {}, expect_violation=expect, timeout=timeout)


def mcr(used, overrides=None):
    """NodeIds.tla refines the unbounded NodeIdsProof.tla (proved with TLAPS) for this used set; its ASSUME is evaluated too"""
    o = {"UsedC": "{" + ", ".join(str(u) for u in used) + "}"}
    o.update(overrides or {})
    return dict(module="NodeIdsRefine.tla", cfg="MC_NodeIdsRefine.cfg", tag="refines_proved_spec_used_" + ("_".join(str(u) for u in used) or "none"), overrides=o,
                expect_violation=False, timeout=600, workers=4)


def mctmp(tag, overrides=None, expect=False):
    return dict(module="TmpNodes.tla", cfg="MC_TmpNodes.cfg", tag=tag, overrides=overrides or {}, expect_violation=expect, timeout=900, workers=4)


def mcpar(tag, cfg):
    return dict(module="TmpNodesPar.tla", cfg=cfg, tag=tag, overrides={}, expect_violation=(cfg == "MC_TmpNodesParSens.cfg"), timeout=900, workers=4)


def all_subsets(n):
    return [[i for i in range(n) if m >> i & 1] for m in range(1 << n)]


MAIN["C13"] = dict(
    mc=dict(quick=[mcn("ids_2x3"), mcn("sens_non_atomic", {"Atomic": "FALSE", "MaxReq": "2"}, expect=True)] + [mcr(u) for u in ([], [1, 4], [0, 1, 2], [5], [0, 2, 3, 5])] + [mctmp("write_back_buffer_3ops"), mctmp("sens_buffer_without_the_deleted_filter", {"FilterDeleted": "FALSE"}, expect=True),
              mcpar("two_buffers_over_disjoint_ids_commute", "MC_TmpNodesPar.cfg"), mcpar("sens_two_buffers_sharing_an_id", "MC_TmpNodesParSens.cfg")],
            thorough=[mcn("ids_2x3"), mcn("ids_3x3", {"Threads": "{1, 2, 3}", "MaxReq": "3"}, timeout=900),
                      mcn("sens_non_atomic", {"Atomic": "FALSE", "MaxReq": "2"}, expect=True)] + [mcr(u) for u in all_subsets(6)] + [mctmp("write_back_buffer_4ops", {"MaxOps": "4"}), mctmp("sens_buffer_without_the_deleted_filter", {"FilterDeleted": "FALSE"}, expect=True),
                 mcpar("two_buffers_over_disjoint_ids_commute", "MC_TmpNodesPar.cfg"), mcpar("sens_two_buffers_sharing_an_id", "MC_TmpNodesParSens.cfg")]),
    proofs=dict(quick=["NodeIdsProof.tla"], thorough=["NodeIdsProof.tla"]),
    traces=dict(quick=[dict(profile="parallel", jobs=6, count=30, threads=[2, 4, 8, 16, 3, 16])],
                thorough=[dict(profile="parallel", jobs=12, count=400, threads=[2, 4, 8, 16, 3, 16])]),
    extra_jobs=dict(quick=[dict(name="schedules", kind="sched", module="TraceIds.tla", heap="6g", args=["nodeids", "--budget", "20000"]),
                           dict(name="tmpnodes", kind="tmpn", module="TraceTmp.tla", heap="4g", args=["tmpnodes"])],
                    thorough=[dict(name="schedules", kind="sched", module="TraceIds.tla", heap="10g", args=["nodeids", "--budget", "150000"]),
                              dict(name="tmpnodes", kind="tmpn", module="TraceTmp.tla", heap="8g", args=["tmpnodes"])]),
    distinct=lambda results: dict(
        n=sum(r["stats"]["histories"] for r in results if r["job"].get("kind") == "sched") + sum(r["stats"]["distinct_forests"] for r in results),
        rule="one case per distinct interleaving of the atomic steps of ConcurrentNodeIds::next() executed on the real code (depth-first "
             "enumeration, complete for the small configurations, seeded sampling beyond) plus one per distinct forest built in a 2-16 thread rayon pool"),
    also=lambda prop, conj: prop == "C01",
    selftest_as="C01", sample_event="Build",
)

def mct(tag, overrides=None, timeout=900):
    return dict(module="Txn.tla", cfg="MC_Txn.cfg", tag=tag, overrides=overrides or {}, expect_violation=False, timeout=timeout)


def txn_jobs(n, count, kind, module="TraceTxn.tla"):
    return [dict(name=f"{kind}_{j}", kind=kind, module=module, heap="4g", args=[kind, "--count", str(count), "--first", str(j * (count + 1)), "--salt", str(j)]) for j in range(n)]


MAIN["C08"] = dict(
    mc=dict(quick=[mct("txn_2readers_3versions"), mc("MC_Store.cfg", "store_txn")],
            thorough=[mct("txn_3readers_4versions", {"Readers": "{1, 2, 3}", "MaxVersion": "4"}, timeout=900), mc("MC_Store.cfg", "store_txn")]),
    traces=dict(quick=[dict(profile="store", jobs=2, count=40, seed_off=21)], thorough=[dict(profile="store", jobs=4, count=400, seed_off=21)]),
    extra_jobs=dict(quick=txn_jobs(6, 6, "txn"), thorough=txn_jobs(12, 60, "txn")),
    distinct=lambda results: dict(n=sum(r["stats"].get("observations", 0) for r in results) + sum(r["stats"]["histories"] for r in results),
                                  rule="one case per snapshot observation made by a reader thread while the writer thread was adding, building, committing or aborting "
                                       "(real threads, 1-8 readers, builder pools of 1 and 4 threads), plus one per single-threaded commit/abort history"),
    sample_event="Abort", selftest_as="C08",
    # "an aborted transaction leaves no trace": whatever the next transaction of this driver does wrong after an abort
    # (a build that does nothing, a stale answer) is a trace; the store driver commits, aborts and rebuilds with long-lived writers
    also=lambda prop, conj: prop in ("C01", "C05", "C06"),
)
MAIN["C09"] = dict(
    mc=dict(quick=[mct("txn_crash")], thorough=[mct("txn_crash_3readers", {"Readers": "{1, 2, 3}", "MaxVersion": "4"}, timeout=900)]),
    traces=dict(quick=[], thorough=[]),
    extra_jobs=dict(quick=txn_jobs(6, 2, "crash"), thorough=txn_jobs(12, 6, "crash")),
    distinct=lambda results: dict(n=sum(r["stats"].get("kill_points", 0) for r in results),
                                  rule="one case per SIGKILL point of a child process: n-th poll of the cancellation callback over all builds of the history (stride in "
                                       "quick, all in thorough), every operation boundary, and delays inside every commit"),
    sample_event="C.Recovered", level="fault_enumeration",
)

def mut_fixture_key(events, rng):
    i = _find(events, lambda e: e.get("ev") == "Load" and e["keys"], rng)
    if i is None:
        return None
    ev = copy.deepcopy(events)
    k = ev[i]["keys"][len(ev[i]["keys"]) // 2]
    k["bytes"][3], k["bytes"][6] = k["bytes"][6], k["bytes"][3]   # little-endian id
    if k["bytes"][3] == k["bytes"][6]:
        k["bytes"][7] = 1
    return ev


def mut_fixture_answers(events, rng):
    i = _find(events, lambda e: e.get("ev") == "Load", rng)
    if i is None:
        return None
    ev = copy.deepcopy(events)
    ev[i]["answers_ok"] = False
    return ev


def mut_layout_problem(events, rng):
    i = _find(events, lambda e: e.get("ev") in ("Add", "Build", "Del") and "st" in e, rng)
    if i is None:
        return None
    ev = copy.deepcopy(events)
    ev[i]["st"]["problems"] = ["tree 3: tree key holds a value with tag 7"]
    return ev


MUTATORS.update({
    "fixture_key_bytes": (mut_fixture_key, ["C16"]),
    "fixture_answers_differ": (mut_fixture_answers, ["C16"]),
    "value_tag_unknown": (mut_layout_problem, ["C16"]),
})

MAIN["C16"] = dict(
    mc=dict(quick=[dict(module="Keys.tla", cfg="MC_Keys.cfg", tag="keys_boundary_lattice", overrides={}, expect_violation=False, timeout=900, workers=4)],
            thorough=[dict(module="Keys.tla", cfg="MC_Keys.cfg", tag="keys_boundary_lattice", overrides={}, expect_violation=False, timeout=900, workers=4)]),
    traces=dict(quick=[dict(profile="store", jobs=2, count=40, seed_off=31), dict(profile="metric", jobs=2, count=30, seed_off=31), dict(profile="forest", jobs=2, count=30, seed_off=31)],
                thorough=[dict(profile="store", jobs=6, count=500, seed_off=31), dict(profile="metric", jobs=4, count=300, seed_off=31), dict(profile="forest", jobs=6, count=400, seed_off=31)]),
    extra_jobs=dict(quick=[dict(name="fixtures", kind="fixture", module="TraceMain.tla", args=["fixture-check", "--dir", "/verif/fixtures"])],
                    thorough=[dict(name=f"fixtures{j}", kind="fixture", module="TraceMain.tla", args=["fixture-check", "--dir", "/verif/fixtures", "--salt", str(j)]) for j in range(6)]),
    all_kinds=("fixture",),
    distinct=distinct_events, sample_event="Load",
    assumptions=["the roaring portable serialisation inside values is decoded by the roaring crate in both arroy and the reference decoder (not re-specified)"],
)

def mcnum():
    return dict(module="NumericMC.tla", cfg="MC_Numeric.cfg", tag="numeric_theorems", overrides={}, expect_violation=False, timeout=900, workers=4)


MAIN["C17"] = dict(
    mc=dict(quick=[mc("MC_Upgrade.cfg", "upgrade_over_reachable_indexes")], thorough=[mc("MC_Upgrade.cfg", "upgrade_over_reachable_indexes_3builds", {"MaxBuilds": "3"})]),
    traces=dict(quick=[], thorough=[]),
    extra_jobs=dict(quick=[dict(name=f"upgrade{j}", kind="upgrade", module="TraceUp.tla", args=["upgrade", "--count", "20", "--salt", str(j)]) for j in range(4)],
                    thorough=[dict(name=f"upgrade{j}", kind="upgrade", module="TraceUp.tla", args=["upgrade", "--count", "250", "--salt", str(j)]) for j in range(8)]),
    distinct=lambda results: dict(n=sum(r["stats"]["histories"] for r in results),
                                  rule="one case per database upgraded by the real function: cosine databases of the forest driver inverted byte-wise into the 0.4 layout "
                                       "(several indexes, pending updates, single-item children on either side), and databases of any metric with the version records removed"),
    sample_event="Up04",
)
MAIN["C12"] = dict(
    mc=dict(quick=[mcnum()], thorough=[mcnum()]),
    # end to end: quantised indexes whose metric is changed (between the quantised metrics the leaf layout is the same and
    # only the meaning of the header differs) and searched; the distance and header conjuncts of that driver count for C12
    traces=dict(quick=[dict(profile="bqmetric", jobs=4, count=30, seed_off=90)], thorough=[dict(profile="bqmetric", jobs=8, count=300, seed_off=90)]),
    also=lambda prop, conj: prop in ("C02", "C18") or (prop == "C03" and conj in ("reported_distance_wrong", "not_nearest_first")),
    extra_jobs=dict(quick=[dict(name="bq", kind="bq", module="TraceNum.tla", heap="6g", args=["numeric", "--kind", "bq"])],
                    thorough=[dict(name=f"bq{j}", kind="bq", module="TraceNum.tla", heap="8g", args=["numeric", "--kind", "bq", "--salt", str(j)]) for j in range(3)]),
    distinct=lambda results: dict(n=sum(r["stats"]["events"] for r in results),
                                  rule="one case per (dimension 1..300, sign pattern) conversion through from_slice / from_vec / to_vec / iter and per pair of patterns whose three distances "
                                       "are compared with 4h/d, 2h/d, h/(64*ceil(d/64)); exhaustive over sign patterns for d <= 7 (thorough: 12); plus end-to-end items and queries through LMDB"),
    sample_event="BQ",
)
MAIN["C11"] = dict(
    mc=dict(quick=[mcnum()], thorough=[mcnum()]),
    traces=dict(quick=[dict(profile="search", jobs=4, count=30, seed_off=41)], thorough=[dict(profile="search", jobs=8, count=300, seed_off=41)]),
    extra_jobs=dict(quick=[dict(name="kernel", kind="kernel", module="TraceNum.tla", heap="6g", args=["numeric", "--kind", "kernel"])],
                    thorough=[dict(name=f"kernel{j}", kind="kernel", module="TraceNum.tla", heap="8g", args=["numeric", "--kind", "kernel", "--salt", str(j)]) for j in range(3)]),
    distinct=lambda results: dict(n=sum(r["stats"]["events"] for r in results if r["job"].get("kind") == "kernel"),
                                  rule="one case per (length 1..300, byte offset, probe family) on which f32 arithmetic is exact: one-hot pairs, small-integer ramps, sign vectors, explicit small-integer "
                                       "vectors; each evaluates Euclidean, Manhattan, DotProduct and Cosine in both argument orders and against itself on vectors borrowed at the byte offset"),
    also=lambda prop, conj: prop in ("C02", "C03") and conj == "reported_distance_wrong",
    sample_event="Kernel",
)

PLANS = {pid: dict(run=run_main) for pid in MAIN}
