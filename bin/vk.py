"""Shared machinery of the /verif checks: building the harness, running TLC (model checking and
trace validation), collecting verdict lines, known findings, evidence files."""
import hashlib
import json
import os
import re
import shutil
import subprocess
import sys
import time
from concurrent.futures import ThreadPoolExecutor

VERIF = "/verif"
SPEC = f"{VERIF}/spec"
WORK = f"{VERIF}/work"
HARNESS_DIR = f"{VERIF}/harness"
HARNESS = f"{HARNESS_DIR}/target/release/arroy-verif-harness"
JAR = "/opt/veriftools/tla/tla2tools.jar:/opt/veriftools/tla/CommunityModules-deps.jar"
KNOWN = f"{VERIF}/known_findings.json"


class ToolError(Exception):
    pass


def log(*a):
    print(*a, flush=True)


def sh(cmd, timeout=None, env=None, cwd=None):
    e = dict(os.environ)
    if env:
        e.update(env)
    p = subprocess.run(cmd, shell=isinstance(cmd, str), stdout=subprocess.PIPE, stderr=subprocess.STDOUT,
                       timeout=timeout, env=e, cwd=cwd, text=True, errors="replace")
    return p.returncode, p.stdout


_built = False


def build_harness():
    """Rebuild the harness against /repo's current working tree (hooks on)."""
    global _built
    if _built:
        return
    t0 = time.time()
    rc, out = sh("cargo build --release 2>&1 | tail -40", cwd=HARNESS_DIR, timeout=1800,
                 env={"CARGO_NET_OFFLINE": "true"})
    if not os.path.exists(HARNESS) or "error" in out and "could not compile" in out:
        log(out)
        raise ToolError("harness build failed")
    # cargo's exit status is hidden by the pipe: verify freshness through a second, silent invocation
    rc, out2 = sh("cargo build --release -q", cwd=HARNESS_DIR, timeout=1800, env={"CARGO_NET_OFFLINE": "true"})
    if rc != 0:
        log(out2[-4000:])
        raise ToolError("harness build failed")
    _built = True
    log(f"[build] harness rebuilt from /repo working tree in {time.time()-t0:.1f}s")


def workdir(name):
    d = f"{WORK}/{name}"
    shutil.rmtree(d, ignore_errors=True)
    os.makedirs(d, exist_ok=True)
    return d


# ----------------------------------------------------------------------------------------- TLC

def tlc_cmd(module, cfg, metadir, workers, heap="4g", extra=None, deque=False):
    props = ["-XX:+UseParallelGC", f"-Xmx{heap}", "-Xss1g"]
    if deque:
        props.append("-Dtlc2.tool.queue.IStateQueue=StateDeque")
    return (["java"] + props + ["-cp", JAR, "tlc2.TLC", "-workers", str(workers), "-metadir", metadir,
                                "-cleanup", "-noGenerateSpecTE", "-config", cfg] + (extra or []) + [module])


RE_STATES = re.compile(r"(\d+) states generated, (\d+) distinct states found")


def run_mc(module, cfg, workers=8, timeout=900, expect_violation=False, heap="12g", overrides=None, tag=None, simulate=None):
    """Exhaustive model checking of a config. Returns dict(states, transitions, ok, violated, wall, out)."""
    tag = tag or os.path.basename(cfg).replace(".cfg", "")
    md = workdir(f"mc_{tag}_{os.getpid()}")
    cfg_path = f"{SPEC}/{cfg}"
    if overrides:
        txt = open(cfg_path).read()
        for k, v in overrides.items():
            txt, n = re.subn(rf"(?m)^(\s*{re.escape(k)}\s*=\s*).*$", lambda m: m.group(1) + v, txt)
            if n == 0:
                raise ToolError(f"override {k} not found in {cfg}")
        cfg_path = f"{md}/{tag}.cfg"
        open(cfg_path, "w").write(txt)
    t0 = time.time()
    timed_out = False
    try:
        extra = ["-coverage", "1"]
        if simulate:
            # random walks through a state space too large to enumerate (not exhaustive)
            extra = ["-simulate", f"num={simulate['num']}", "-depth", str(simulate.get("depth", 100))]
        rc, out = sh(tlc_cmd(module, cfg_path, md + "/states", workers, heap=heap, extra=extra), timeout=timeout, cwd=SPEC)
    except subprocess.TimeoutExpired as e:
        # a bounded exploration: report what was covered, it is not exhaustive
        out = e.output if isinstance(e.output, str) else (e.output or b"").decode(errors="replace")
        timed_out = True
    wall = time.time() - t0
    shutil.rmtree(md, ignore_errors=True)
    m = RE_STATES.findall(out)
    states = int(m[-1][1]) if m else 0
    trans = int(m[-1][0]) if m else 0
    sim = re.findall(r"Progress: (\d+) states checked, (\d+) traces generated", out)
    if simulate and sim:
        states, trans = int(sim[-1][0]), int(sim[-1][0])
    violated = None
    mm = re.search(r"Error: Invariant (\w+) is violated", out) or re.search(r"Error: Action property (\w+) is violated", out) \
        or re.search(r"Error: Temporal properties were violated", out)
    if mm:
        violated = mm.group(1) if mm.groups() else "temporal"
    finished = "Model checking completed. No error has been found." in out
    if simulate and not violated and sim:
        return dict(cfg=tag, states=states, transitions=trans, ok=True, complete=False, violated=None, wall=round(wall, 1), cex_actions=[],
                    simulation=dict(traces=int(sim[-1][1]), depth=simulate.get("depth", 100)), out=out[-1500:])
    if timed_out and not violated:
        pm = re.findall(r"Progress\(\d+\) at [^:]+:[^:]+:[^:]+: ([\d,]+) states generated.*?, ([\d,]+) distinct states found", out)
        states = int(pm[-1][1].replace(",", "")) if pm else 0
        trans = int(pm[-1][0].replace(",", "")) if pm else 0
        return dict(cfg=tag, states=states, transitions=trans, ok=True, complete=False, violated=None, wall=round(wall, 1), cex_actions=[], out=out[-2000:])
    if not finished and not violated:
        log(out[-3000:])
        raise ToolError(f"TLC failed on {cfg}")
    actions = re.findall(r"State \d+: <(\w+(?:\([^)]*\))?)", out)
    # per-action coverage (distinct states produced : states generated), last report wins
    cov = {}
    for name, d, t in re.findall(r"(?m)^<(\w+) line \d+, col \d+ to line \d+, col \d+ of module \w+>: (\d+):(\d+)", out):
        cov[name] = [int(d), int(t)]
    return dict(cfg=tag, states=states, transitions=trans, ok=finished, complete=finished, violated=violated, wall=round(wall, 1),
                cex_actions=actions, action_coverage=cov, actions_never_taken=sorted(k for k, v in cov.items() if v[1] == 0), out=out)



def run_proof(module, timeout=600):
    """TLAPS: re-check every proof obligation of a module, in a scratch copy (no cache is reused)."""
    d = workdir(f"proof_{module}_{os.getpid()}")
    for f in os.listdir(SPEC):
        if f.endswith(".tla"):
            shutil.copy(f"{SPEC}/{f}", d)
    t0 = time.time()
    try:
        rc, out = sh(["tlapm", "--threads", "8", "--cleanfp", module], timeout=timeout, cwd=d)
    except subprocess.TimeoutExpired:
        shutil.rmtree(d, ignore_errors=True)
        raise ToolError(f"tlapm timed out on {module}")
    shutil.rmtree(d, ignore_errors=True)
    m = re.search(r"All (\d+) obligations? proved", out)
    if not m:
        log(out[-3000:])
        raise ToolError(f"tlapm did not prove every obligation of {module}")
    return dict(module=module, obligations_proved=int(m.group(1)), wall=round(time.time() - t0, 1), prover="tlapm (SMT, Zenon, Isabelle, PTL back ends)")

RE_VIOL = re.compile(r'"(VIOL|DRIFT)\|(-?\d+)\|(-?\d+)\|(\d+)\|([^|"]*)\|([^|"]*)\|([^|"]*)"')


TRACE_TIMEOUT = 1200      # per trace; the thorough tier raises it (plans.run_main)


def run_trace(module, trace_path, timeout=None, heap="3g", cfg=None):
    """Validate one ndjson trace. Returns (viols, drifts, n_lines, wall)."""
    timeout = timeout or TRACE_TIMEOUT
    md = workdir(f"tv_{os.path.basename(trace_path)}_{os.getpid()}")
    cfg = cfg or module.replace(".tla", ".cfg")
    t0 = time.time()
    try:
        rc, out = sh(tlc_cmd(module, f"{SPEC}/{cfg}", md, 1, heap=heap, deque=True), timeout=timeout, cwd=SPEC,
                     env={"TRACE": trace_path})
    except subprocess.TimeoutExpired:
        shutil.rmtree(md, ignore_errors=True)
        raise ToolError(f"trace validation timed out on {trace_path}")
    shutil.rmtree(md, ignore_errors=True)
    wall = time.time() - t0
    n_lines = sum(1 for _ in open(trace_path))
    viols, drifts, seen = [], [], set()
    for kind, h, k, line, prop, conj, ev in RE_VIOL.findall(out):
        if (kind, h, k, line, prop, conj, ev) in seen:
            continue
        seen.add((kind, h, k, line, prop, conj, ev))
        rec = dict(h=int(h), k=int(k), line=int(line), prop=prop, conj=conj, ev=ev)
        (viols if kind == "VIOL" else drifts).append(rec)
    if "Model checking completed. No error has been found." not in out:
        stuck = re.search(r'<<"STUCK".*?>>', out)
        log(out[-3000:])
        if not viols:
            raise ToolError(f"trace validator did not accept the whole trace {trace_path}: {stuck.group(0) if stuck else 'error'}")
        # the validator stopped before the end of the trace (an event outside what the trace specification can evaluate,
        # typically after the code under test has already misbehaved): the violations reported up to there stand
        log(f"[trace] validator stopped early on {trace_path} after reporting {len(viols)} violations: they are kept")
    return viols, drifts, n_lines, wall


# ----------------------------------------------------------------------------------- harness runs

# signals a process raises against itself when the code it runs goes wrong (SIGILL, SIGABRT, SIGBUS, SIGFPE, SIGSEGV);
# SIGKILL / SIGTERM (out of memory, timeouts) stay machinery failures
CRASH_SIGNALS = (4, 6, 7, 8, 11)


class HarnessCrash(Exception):
    def __init__(self, sig, args):
        super().__init__(f"harness died (signal / exit code {sig}): {' '.join(args)}")
        self.sig = sig
        self.args_ = args


def run_harness(args, timeout=1500, env=None):
    """Runs one harness command. The harness executes arroy in-process, so arroy can kill it (stack overflow, segmentation
    fault, abort). For the history drivers that is DATA: the history in progress is replaced by a `Crash` event and the
    command is run again without it (at most 8 times). For the other drivers HarnessCrash is raised."""
    crashed = []
    prefix = args[args.index("--out") + 1] if "--out" in args else None
    for _ in range(9):
        e = dict(env or {})
        a = list(args)
        if prefix and args[0] in ("gen", "family", "from-model", "replay"):
            e["VERIF_PROGRESS_FILE"] = prefix + ".progress"
            if crashed:
                a += ["--crashed", ",".join(f"{h}:{k}:{sg}" for h, k, sg in crashed)]
        rc, out = sh([HARNESS] + a, timeout=timeout, env=e)
        if rc == 0:
            last = [ln for ln in out.strip().splitlines() if ln.startswith("{")]
            st = json.loads(last[-1]) if last else {}
            if crashed:
                st["crashed_histories"] = [list(c) for c in crashed]
            return st
        if -rc in CRASH_SIGNALS or rc == 101:
            # 101: the driver itself panicked, on the clean tree that never happens: a library call it unwraps failed
            rc = -101 if rc == 101 else rc
            log(out[-1500:])
            pos = None
            if "VERIF_PROGRESS_FILE" in e and os.path.exists(e["VERIF_PROGRESS_FILE"]):
                try:
                    pos = [int(x) for x in open(e["VERIF_PROGRESS_FILE"]).read().split()[:2]]
                except ValueError:
                    pos = None
            if pos and len(pos) == 2 and not any(c[0] == pos[0] for c in crashed):
                log(f"[harness] died (signal / exit code {-rc}) during operation {pos[1]} of history {pos[0]}: recorded as a Crash event, running the rest again")
                crashed.append((pos[0], pos[1], -rc))
                continue
            raise HarnessCrash(-rc, args)
        log(out[-3000:])
        raise ToolError(f"harness failed: {' '.join(args)}")
    raise HarnessCrash(crashed[-1][2], args)


def gen_and_validate(jobs, module="TraceMain.tla", parallel=8):
    """jobs: list of dict(name, args=[harness args without --out]) -> list of results
    (stats, viols, drifts, lines, prefix)."""
    d = workdir(f"tr_{os.getpid()}")

    def one(job):
        prefix = f"{d}/{job['name']}"
        try:
            st = run_harness(job["args"] + ["--out", prefix])
        except HarnessCrash as hc:
            # a driver without per-history recovery: the whole job counts as one violated case
            log(f"[harness] {hc}")
            open(prefix + ".ndjson", "w").close()
            open(prefix + ".hist.json", "w").write("[]")
            st = dict(histories=1, schedules=1, events=0, builds_ok=0, builds_err=0, panics=0, nontrivial_builds=0, distinct_forests=0, first_no=0,
                      observations=0, kill_points=0, threads=1)
            v = dict(h=0, k=0, line=0, prop="*", conj=f"process_died_code_{hc.sig}_in_driver_{job['args'][0]}", ev="Crash")
            if job.get("kind") == "sched":
                st = dict(histories=1, events=0, builds_ok=0, builds_err=0, panics=0, nontrivial_builds=0, distinct_forests=0, first_no=0, exhaustive_configs=0, configs=0)
            return dict(job=job, stats=st, viols=[v], drifts=[], lines=0, wall=0.0, prefix=prefix, crashed=True)
        viols, drifts, n, wall = run_trace(job.get("module", module), prefix + ".ndjson", heap=job.get("heap", "3g"))
        if job.get("kind") == "sched":
            st = dict(histories=st["schedules"], events=st["schedules"], builds_ok=0, builds_err=0, panics=0, nontrivial_builds=0,
                      distinct_forests=0, first_no=0, exhaustive_configs=st.get("exhaustive_configs", 0), configs=st.get("configs", 0))
        return dict(job=job, stats=st, viols=viols, drifts=drifts, lines=n, wall=wall, prefix=prefix)

    with ThreadPoolExecutor(max_workers=parallel) as ex:
        res = list(ex.map(one, jobs))
    return res, d


# ------------------------------------------------------------------------------- known findings

def load_known():
    if not os.path.exists(KNOWN):
        return []
    return [e for e in json.load(open(KNOWN)).get("findings", []) if e.get("status") == "open"]


def match_known(v, history, known):
    """v: violation record; history: the History dict (or None)."""
    for k in known:
        if k["property"] != v["prop"]:
            continue
        m = k["match"]
        if "conj" in m and m["conj"] != v["conj"]:
            continue
        if "conj_prefix" in m and not v["conj"].startswith(m["conj_prefix"]):
            continue
        if "ev" in m and m["ev"] != v["ev"]:
            continue
        if "label_prefix" in m and not (history or {}).get("label", "").startswith(m["label_prefix"]):
            continue
        if "metric_in" in m:
            ms = {d["metric"] for d in (history or {}).get("indexes", [])}
            if not (ms & set(m["metric_in"])):
                continue
        if "dim_in" in m:
            ds = {d["dim"] for d in (history or {}).get("indexes", [])}
            if not (ds & set(m["dim_in"])):
                continue
        return k
    return None


# ------------------------------------------------------------------------------------- evidence

def write_evidence(pid, tier, seed, level, coverage, wall, violations, assumptions):
    os.makedirs(f"{VERIF}/evidence", exist_ok=True)
    ev = dict(property_id=pid, tier=tier, seed=seed, level=level, coverage=coverage, assumptions=assumptions,
              wall_s=round(wall, 1), violations=violations)
    tmp = f"{VERIF}/evidence/{pid}.json.tmp"
    json.dump(ev, open(tmp, "w"), indent=1)
    os.replace(tmp, f"{VERIF}/evidence/{pid}.json")


def write_replay(pid, payload):
    os.makedirs(f"{VERIF}/replay", exist_ok=True)
    h = hashlib.sha1(json.dumps(payload, sort_keys=True).encode()).hexdigest()[:10]
    path = f"{VERIF}/replay/{pid}-{h}.json"
    json.dump(payload, open(path, "w"))
    return path


def host_info():
    rc, out = sh("grep -o -w -E 'avx|avx2|fma|sse|sse4_1' /proc/cpuinfo | sort -u | tr '\\n' ' '")
    return dict(cpu_features=out.strip(), endian=sys.byteorder, cores=os.cpu_count())


def model_histories(out_file, num=400, depth=80, seed=1, cfg="MC_Replay.cfg", max_histories=400):
    """Specification -> implementation: behaviours of Arroy.tla (through Replay.tla, tlc -simulate) as one JSON
    history per line; prefixes of longer histories are dropped."""
    md = workdir(f"replay_{os.getpid()}")
    cmd = ["java", "-XX:+UseParallelGC", "-Xmx3g", "-Xss1g", "-cp", JAR, "tlc2.TLC", "-workers", "1", "-simulate", f"num={num}",
           "-depth", str(depth), "-seed", str(seed), "-metadir", md, "-cleanup", "-noGenerateSpecTE", "-config", f"{SPEC}/{cfg}", "Replay.tla"]
    try:
        rc, out = sh(cmd, timeout=600, cwd=SPEC)
    except subprocess.TimeoutExpired as e:
        out = e.output if isinstance(e.output, str) else (e.output or b"").decode(errors="replace")
    shutil.rmtree(md, ignore_errors=True)
    lines = set()
    for m in re.findall(r'"REPLAY (\[.*?\])"\n', out):
        lines.add(m.replace('\\"', '"'))
    hs = sorted(lines, key=len, reverse=True)
    kept = []
    for h in hs:
        body = h[:-1]
        if any(k.startswith(body) for k in kept):
            continue
        kept.append(h)
        if len(kept) >= max_histories:
            break
    if not kept:
        log(out[-2000:])
        raise ToolError("TLC produced no behaviour to replay")
    with open(out_file, "w") as f:
        for h in kept:
            f.write(h + "\n")
    return len(kept), len(lines)
