#!/usr/bin/env python3
"""Regenerates /verif/MANIFEST.json from the table below (kept in one place so it stays valid)."""
import json
import os
import subprocess

ALL = [f"C{n:02d}" for n in range(1, 21)]

TV = ("trace validation: seeded random histories executed on the real arroy (hooks on), every call's result, the raw LMDB "
      "dump decoded by the harness's own reference decoder and the public-API observations recorded as an ndjson trace and "
      "checked line by line by TLC against spec/TraceMain.tla, which evaluates the operators of Store.tla/Forest.tla/Search.tla; ")
MC = "TLC model checking of spec/Arroy.tla (same operators) over every history of a small universe; "

CHECKS = {
    "C01": dict(
        text=MC + TV + "conjuncts: every tree covers exactly the stored items once, no dangling/shared/orphan node, metadata item set; "
             "sensitivity: the model with the pinned code's insertion / tree deletion (switches AsCodedInsert, AsCodedDelTree) is refuted by TLC in the thorough tier; "
             "binding self-test: a dropped bucket item, a flipped child kind and an orphan node injected into recorded traces must be rejected.",
        note="Bounded: MC 3 ids x 2 tokens, 1-2 trees, 2-3 builds; traces <= 12 ids per history, <= 20 trees, all 7 metrics, rayon pools 1..16. "
             "Trusted: LMDB, the roaring portable format, the harness decoder (DESIGN.md Appendix A), f64 margin oracle for sides.",
        ref="5 (C01)", technique="TLA+ model checking + trace validation (TLC)"),
    "C02": dict(
        text=MC + TV + "after builds the harness issues by_vector/by_item queries with unlimited budget and several counts; results are projected to tie-class ranks by an f64 brute-force oracle "
             "over the decoded stored vectors; Search.tla requires: length = min(count, n), distinct, stored, class ranks equal to the first ranks of the population, reported distance within the rounding bound.",
        note="The float comparison (tie classes, distance tolerance, no-claim zone for overflow/underflow-prone inputs) is done by the projection and trusted; the logic over ranks is the specification's.",
        ref="5 (C02)", technique="trace validation against Search.tla (TLC) with an f64 oracle projection"),
    "C03": dict(
        text=TV + "a lattice of (count, search_k, oversampling, filter) per query on one transaction; Search.tla checks well-formedness, filter membership, budget monotonicity along search_k chains, "
             "exactness of unlimited+filter, the documented default budget (saturating), by_item = by_vector, unknown id => None; a panic is a recorded result.",
        note="As C02; budget monotonicity is checked on tie-class ranks.",
        ref="5 (C03)", technique="trace validation against Search.tla (TLC)"),
    "C04": dict(
        text=MC + "(invariant Routed over every reachable forest) + " + TV + "per successful build the margin side of every stored item against every plane is logged (f64, guard band, degenerate planes exempt) and "
             "RoutedToSelf is evaluated; self-lookup with search_k=1 must find the item whenever some tree has a decided path.",
        note="Sides within the f32 rounding guard band, exactly-zero and non-finite margins are exempt (logged as U/N).",
        ref="5 (C04)", technique="TLA+ model checking + trace validation (TLC)"),
    "C05": dict(
        text=MC + "(a build never changes the store; commit/abort) + " + TV + "after every operation contains_item/item_vector/iter/is_empty and, when it opens, the reader's item_ids/n_items/item_vector/iter are compared "
             "with the spec's map of last writes (vector bit patterns as tokens, NaN payloads, signed zeros, subnormals, infinities; sign patterns for quantised metrics); in the write transaction and from a fresh read transaction after commit/abort.",
        note="Token equality is bit equality at the declared dimension.",
        ref="5 (C05)", technique="TLA+ model checking + trace validation (TLC)"),
    "C06": dict(
        text=MC + "(invariant OpenIffFresh with a ghost 'last effective event was a successful build', committed copy) + " + TV + "Reader::open under the index's metric and under another one, and need_build, after every single operation, "
             "inside the write transaction and after commit/abort, must equal Store.tla's OpenRes/NeedBuildRes.",
        note="", ref="5 (C06)", technique="TLA+ model checking + trace validation (TLC)"),
    "C07": dict(
        text=MC + "(action property: a step changes at most one index) + " + TV + "histories interleave operations on index pairs (0,1) (0,65535) (65534,65535) (255,256) ...; after every operation the raw bytes of every other index "
             "(and of any key outside the declared indexes) are compared before/after, and the abstract state of the other indexes is held fixed by the trace spec.",
        note="", ref="5 (C07)", technique="TLA+ model checking + trace validation (TLC)"),
    "C15": dict(
        text=MC + "(tree-count and bucket-bound invariants, TargetTrees transcribed in integer arithmetic; sensitivity: AtLeastOne=FALSE is refuted for dimension 1) + " + TV + "grow/shrink histories with changing n_trees and split_after; "
             "reader n_trees, requested/automatic count, single-bucket and empty cases, bucket bound under constant capacity (ghost capacity history), non-empty index returns results.",
        note="Bucket bound only claimed while the capacity never changed since the forest was last wiped (documented exception).",
        ref="5 (C15)", technique="TLA+ model checking + trace validation (TLC)"),
    "C18": dict(
        text=MC + "(action property MetricChange) + " + TV + "all ordered metric pairs on built / unbuilt / pending indexes with neighbours; item set, requantised vector tokens, leaf widths from the dump, forest and metadata removed, "
             "need_build, open under old/new metric, then build and search.",
        note="Requantisation table is computed by the harness oracle (sign bits) and applied by the spec.",
        ref="5 (C18)", technique="TLA+ model checking + trace validation (TLC)"),
    "C19": dict(
        text=MC + "(rejected calls are stuttering steps; append enabled iff the key is above every key of every index) + " + TV + "add/append/by_vector with wrong lengths {0, d-1, d+1, 4d, 1000}, appends below/equal/above the "
             "maximum key with higher indexes present, deletes of absent ids: error class and both lengths, database and staleness unchanged, accepted append = add.",
        note="", ref="5 (C19)", technique="TLA+ model checking + trace validation (TLC)"),
}

CHECKS.update({
    "C10": dict(
        category="fault_enumeration",
        text="fault enumeration bound to the specification: (1) cancellation - for a built index with committed pending insertions and deletions the polls P of the fault-free build are counted, then build is run with a callback answering true "
             "from its n-th call for n in 0..P+1 (quick: first 30, last 10, a stride; thorough: all; also under 2-16 rayon threads), each followed by abort and periodically by a clean retry with the C01/C02 conjuncts; "
             "(2) LMDB map sizes from 32 KiB to ample (expected class MapFull, never a panic), (3) a temp dir that does not exist or is a regular file (expected Io), then a usable one; every Build event carries the delta of /proc/self/fd "
             "and of the temp dir listing. TraceMain.tla decides: result class allowed, success only if cancellation was seen at most once, abort restores the committed database exactly (abstract state of all indexes), no descriptor or file left. "
             "TLC additionally model-checks Arroy.tla with Cancel enabled between any two phases and Commit/Abort (no success over a half-built forest, abort restores).",
        note="Monotone callbacks only. Out-of-space and I/O faults are injected through the environment (map size, temp dir), not at every individual put. The byte-for-byte comparison after abort is done on the decoded abstract state of every index plus a count of foreign keys.",
        ref="5 (C10)", technique="fault enumeration + trace validation (TLC) + TLA+ model checking"),
    "C14": dict(
        text=MC + "(MC_Batch: every admissible batch choice at every iteration; liveness BuildEnds under weak fairness, invariant IdsBounded; sensitivity: the pinned code's minimum batch (AsCodedBatch) is refuted) + " + TV +
             "first and incremental builds with available_memory in {0, 1 page, 16 pages, ~half/all of the items, ample, unset} x item counts {150,199,200,201,300,450(,1000)} x split_after {unset,50,250} x trees, mixing large insertions with deletions; "
             "builds run under a poll-count watchdog (NoProgress is a recorded result); conjuncts: result Ok, C01 structure, exact search (C02) on the query lattice.",
        note="Hang detection is by poll count (400k polls), not wall time. Histories of this family are validated structurally in full (hundreds of items), without margin sides.",
        ref="5 (C14)", technique="TLA+ model checking (safety + liveness) + trace validation (TLC)"),
    "C20": dict(
        text=MC + "(the forest logic never looks at values: every side function and the random fallback are enumerated) + " + TV + "datasets: one vector x n, k vectors repeated, zeros mixed in, collinear, coordinates in {0,+-1}, magnitudes to f32::MAX, subnormals, NaN/inf components; "
             "n in 1..300 (thorough 3000), all 7 metrics; builds under the poll watchdog; conjuncts: build Ok (panic / NoProgress are recorded results), C01 and C05 conjuncts, C03 well-formedness without the accuracy clause (the oracle makes no claim on non-finite or overflow-prone values).",
        note="", ref="5 (C20)", technique="TLA+ model checking + trace validation (TLC)"),
})

CHECKS.update({
    "C13": dict(
        text="(1) TLC model checking of spec/NodeIds.tla: every interleaving of the atomic steps (one label per atomic operation of ConcurrentNodeIds::next) of 2 requesters x up to 3 requests (thorough: 3 x 3) over every set of used ids in 0..5, invariant Unique, "
             "liveness AllDone; the load-then-store variant is refuted (sensitivity). (2) schedules -> code: with hook H1 every atomic operation of the real next() is a yield point; a token-passing scheduler enumerates depth-first ALL interleavings of real threads for "
             "the small configurations (2x1, 2x2, 2+1, 3x1 requests, 8 shapes of the recyclable set) and samples larger ones; each complete schedule is one trace line checked by TLC against NodeIdsOps.tla (TraceIds.tla): returned ids pairwise distinct and not in use (property), "
             "every step's operation and the generator's four state words equal the spec's Step function (conformance). (3) builds in rayon pools of 2..16 threads on histories with 8-20 trees and many bucket creations next to single-item children, validated by TraceMain.tla with the C01 conjuncts. "
             "(4) unbounded: spec/NodeIdsProof.tla states the same atomic steps for ANY set of threads requesting ids forever over ANY used set; its inductive invariant (every id handed out is a distinct recyclable gap below the cursor or a distinct value of the fresh counter) "
             "is proved with TLAPS (83 obligations, re-proved by every run); TLC checks that NodeIds.tla refines it and that its assumptions hold for what ConcurrentNodeIds::new computes (NodeIdsRefine.tla, every used set of 0..5 in the thorough tier). "
             "(5) the per-thread write-back buffer TmpNodes (hook H5 exports the type): spec/TmpNodes.tla proves by TLC that deferring put/remove/remap to the end equals executing them in order under the discipline the type asserts; every operation sequence up to length 3 (thorough 4) "
             "and seeded longer ones run on the real type and to_delete/to_insert are compared with the spec (TraceTmp.tla, conformance); spec/TmpNodesPar.tla: two buffers over disjoint id sets (what (1)-(4) guarantee) commute and "
             "each thread's effect is its own sequential meaning, refuted when they share an id.",
        note="Relaxed memory orderings are not modelled (sequentially consistent interleavings of the atomic operations only); rayon's own scheduling is sampled, not enumerated.",
        ref="5 (C13)", technique="TLA+ model checking + TLAPS proof of the unbounded generator + schedule enumeration on the real code through a yield-point hook, validated by TLC"),
})

CHECKS.update({
    "C08": dict(
        text="(1) TLC model checking of spec/Txn.tla (one writer, 2-3 snapshot readers, commit as an internal step between call and return, abort, crash): the bounds a trace can observe from call/return stamps are implied by snapshot isolation. "
             "(2) real threads: one writer thread (updates, builds in 1- and 4-thread pools, commits, aborts; every version overwrites a sentinel item carrying the version number, aborted transactions write a negative one) and 1-8 reader threads that open a read transaction "
             "at random moments, hold it across later commits and log several times the full projection of their snapshot (raw dump through their own RoTxn, open result, query lattice). Events are ordered by one global atomic counter (never wall-clock). "
             "TraceTxn.tla checks for every observation: the version is one whose commit had been called when begin returned and not older than the newest commit that had returned when begin was called; it never changes while the reader holds its transaction; never an aborted marker; "
             "the projected state equals the state the writer logged for that version (no mixture); it opens, is a valid forest and answers the query lattice exactly. (3) single-threaded commit/abort histories through TraceMain.tla (abort restores the committed state, also after failed builds).",
        note="LMDB's MVCC is the trusted base; the check shows that arroy adds nothing outside the caller's transaction. Schedules are sampled by the OS scheduler with random sleeps, not enumerated.",
        ref="5 (C08)", technique="TLA+ model checking of the transaction model + trace validation of real multi-threaded runs (TLC)"),
    "C09": dict(
        category="fault_enumeration",
        text="kill-point enumeration bound to the specification: a child process runs a deterministic history of 3-5 committed versions (single builder thread) and kills itself with SIGKILL at (a) the n-th poll of the cancellation callback over all builds (quick: stride, thorough: all), "
             "(b) every operation boundary, (c) delays of 0..6000 us inside every commit; it reports START v / ACK v on a pipe. The parent reopens the directory, projects the raw dump and logs C.Recovered(acked, inflight, version found, state, open, query lattice). "
             "TraceTxn.tla checks: the version found is the acknowledged one or the one in flight, its state equals the golden run's state of that version exactly (never a mixture), it opens, passes the C01 conjuncts and answers the query lattice exactly, no stray keys. "
             "Txn.tla (TLC) shows the recovered-version rule holds for every crash point of the transaction model.",
        note="LMDB durability (copy-on-write commit, no MDB_NOSYNC) is trusted; a SIGKILL does not exercise power loss.",
        ref="5 (C09)", technique="crash-point enumeration (SIGKILL) + trace validation (TLC) + TLA+ model checking"),
})

CHECKS.update({
    "C16": dict(
        text="(1) TLC evaluates the key-layout theorems of spec/Keys.tla over the boundary lattice index {0,1,255,256,65534,65535} x kind x id {0,1,255,256,2^16,2^24,2^31,2^32-1}: byte order = (index, kind, id) order, prefixes and the closed tree range select exactly one index (and kind), "
             "indexes are contiguous intervals, the append rule. (2) reference -> current: golden key/value fixtures (fixtures/*.json, one per metric: three indexes incl. 65535, splits, buckets, single-item children on both sides, recycled node ids, pending updates) are put byte for byte "
             "into a fresh environment; TraceMain.tla (action Load) requires: every key re-encodes to its bytes with Enc and keys are sorted, the API (contains/item_vector/iter/open/reader) shows exactly what the reference decoder finds in the bytes, the recorded items come back bit for bit, "
             "the recorded queries return the recorded neighbours and distances (4 ulp), the forests are valid, the query lattice is exact; then an incremental update and rebuild is validated like any history. "
             "(3) current -> reference: every dump of the store / metric / forest drivers is decoded by the reference decoder written from DESIGN.md Appendix A; any framing problem (tag, child kind, widths, metadata framing, padding) is a C16 conjunct.",
        note="Not decided by the specification: the internal bytes of roaring bitmaps (delegated to the roaring crate's portable format on both sides). The fixtures were generated with this harness from the reference tree (format unchanged by the fix commits).",
        ref="5 (C16), Appendix A", technique="TLC-evaluated layout theorems + trace validation of golden fixtures and of every dump (TLC)"),
    "C17": dict(
        text="(1) spec/Upgrade.tla states the two upgrades as functions on abstract indexes; TLC checks Up04to05(Down05to04(ix)) = ix and the version-stamp rule as an invariant over every index value reachable in the MC_Forest model. "
             "(2) cosine databases produced by the forest driver (several indexes, pending updates, single-item children) are inverted byte-wise into the 0.4 layout, loaded into an environment, the real cosine_from_0_4_to_0_5 is run into a second environment; "
             "TraceUp.tla requires: result Ok, abstract content = Up04to05(old) for every index, zero keys whose bytes differ from the current-layout original, Reader::open = Ok or NeedBuild exactly when updates were pending, valid forests. "
             "Same for from_0_5_to_0_6 on databases of all metrics with the version records removed: a version record exactly where there is metadata, nothing else changed, none in other indexes. Conformance (DRIFT): the harness's byte-level inversion agrees with Down05to04.",
        note="The 0.4 layout is the one of DESIGN.md Appendix A (written from src/upgrade.rs); no genuine 0.4 database was available offline.",
        ref="5 (C17)", technique="TLA+ model checking of the upgrade functions + trace validation of real upgrades (TLC)"),
    "C12": dict(
        text="(1) TLC evaluates the theorems of spec/Numeric.tla: Unpack(Pack(s)) = s and zero padding for every sign pattern of every dimension 1..10 and boundary templates at 63/64/65/127/128/129/300; the three distances as rationals of h. "
             "(2) for every dimension 1..300, sign patterns (exhaustive for d <= 7, thorough 12; templates and random beyond) with components drawn from {+-0, tiny, 1, f32::MAX, inf, NaN} by wanted sign bit go through from_slice, from_vec, to_vec (SSE), iter, len; "
             "all three distances through the public Distance functions on pairs; and end to end add_item -> raw stored words -> item_vector -> by_vector. TraceNum.tla: read-back = sign pattern on every path at the declared dimension, padding zero, stored length, "
             "10^6 x distance = 10^6 x 4h/d (2h/d, h/padded d) within 3 millionths, zero on equal patterns, symmetric, neighbours ordered by h.",
        note="The float division is compared through integer rounding to millionths. The NEON path cannot run on this host.",
        ref="5 (C12)", technique="TLC-evaluated theorems + trace validation of conversion/distance cases (TLC)"),
    "C11": dict(
        text="RESTRICTED CLAIM (DESIGN.md section 6). (1) TLC evaluates the lane-structure theorem of spec/Numeric.tla: for every length 1..300 and each path (AVX 4x8 lanes, SSE 4x4 lanes, scalar) every index is consumed exactly once (main loop bound, tail), dispatch thresholds. "
             "(2) exact-arithmetic probe families (one-hot pairs, small-integer ramps, sign vectors, explicit small-integer vectors: every f32 partial sum is an exact integer in any association order) for every length 1..300 at byte offsets 0..7 through the public Distance functions on "
             "vectors borrowed unaligned; TraceNum.tla recomputes the expected integers (sum of squares, sum of absolute differences, dot product; cosine 0, 1/2, 1 on parallel / orthogonal / opposite axis vectors) and requires equality, symmetry and zero self-distance. "
             "(3) end to end: the reported-distance conjunct of the search driver (f64 oracle with a rounding bound) over dimensions up to 130.",
        note="NOT decided: 'within the rounding error of single-precision summation' on cancellation-prone, tiny, huge and subnormal inputs beyond the oracle's bound, and NEON: outside what an explicit TLA+ model can state. The SSE kernels are reached only for lengths 16..31 on this AVX host (hook H4 not built).",
        ref="5 (C11), 6", technique="TLC-evaluated lane-structure theorem + trace validation of exact-arithmetic kernel cases (TLC)"),
})

REASONS_NOT_YET = "check not built yet (work in progress; DESIGN.md section 9 gives the order of work)"


def main():
    commits = subprocess.run("git -C /repo log --format=%h --grep='^hook:' ", shell=True, capture_output=True, text=True).stdout.split()
    checks = []
    for pid, c in CHECKS.items():
        checks.append(dict(
            property_id=pid,
            quick_cmd=f"./bin/check {pid} --tier quick",
            thorough_cmd=f"./bin/check {pid} --tier thorough",
            evidence_file=f"/verif/evidence/{pid}.json",
            replay_cmd_template=f"./bin/check {pid} --replay {{path}}",
            engine="tlc+harness",
            level_claimed=dict(category=c.get("category", "model_checking"), text=c["text"], design_ref=f"DESIGN.md section {c['ref']}"),
            level_note=c["note"] or "Trusted: LMDB/heed, the roaring portable format, the harness decoder (DESIGN.md Appendix A).",
            technique=c["technique"],
        ))
    na = [dict(property_id=p, reason=NA.get(p, REASONS_NOT_YET)) for p in ALL if p not in CHECKS]
    m = dict(
        version=1,
        setup_cmd="cd /verif/harness && cargo build --release 2>&1 | tail -3 && cd /verif/spec && for m in Forest Store Search Upgrade Arroy TraceMain NodeIds TraceIds Txn TraceTxn Keys TraceUp NumericMC TraceNum; do tla-sany $m.tla > /dev/null || exit 1; done",
        hooks=dict(
            guard="--cfg arroy_verif",
            enable="rustflags = [\"--cfg\", \"arroy_verif\", \"--check-cfg\", \"cfg(arroy_verif)\"] in /verif/harness/.cargo/config.toml; the harness depends on /repo by path, so every check rebuilds /repo's working tree with the hooks on",
            baseline_off_cmd="cd /repo && cargo test --workspace --no-fail-fast --offline",
            source_commits=commits,
            add_only=True,
        ),
        engines=[dict(name="tlc+harness", path="/verif/bin/check", serves_properties=list(CHECKS),
                      kind_free_text="explicit TLA+ specification (spec/*.tla) model-checked with TLC and bound to the code by trace validation of harness-driven executions")],
        checks=checks,
        notes="Seven genuine defects of the pinned tree were found by these checks and repaired by 'fix:' commits in /repo (known_findings.json). "
              "Exit codes: 0 held, 1 VIOLATION line printed, 2 machinery failure.",
        not_applicable=na,
    )
    json.dump(m, open("/verif/MANIFEST.json", "w"), indent=1)
    print("MANIFEST.json written:", len(checks), "checks,", len(na), "not claimed")


NA = {}

if __name__ == "__main__":
    main()
