mod decode;
mod exec;
mod gen;
mod gen2;
mod hist;
mod metric;
mod nodeids;
mod search;

use std::collections::BTreeSet;
use std::io::Write;

use serde_json::{json, Value};

fn arg(args: &[String], name: &str) -> Option<String> {
    args.iter().position(|a| a == name).and_then(|p| args.get(p + 1)).cloned()
}

fn write_trace(path: &str, events: &[Value]) {
    let mut f = std::io::BufWriter::new(std::fs::File::create(path).unwrap());
    for e in events {
        writeln!(f, "{}", e).unwrap();
    }
}

fn run_many(hists: &[hist::History], threads: usize, cfg: &exec::RunCfg, out_prefix: &str, first_no: usize) {
    let pool = rayon::ThreadPoolBuilder::new().num_threads(threads).build().unwrap();
    let mut events = Vec::new();
    let mut agg = exec::RunStats::default();
    let mut hashes: BTreeSet<u64> = BTreeSet::new();
    for (i, h) in hists.iter().enumerate() {
        let st = pool.install(|| {
            let mut ev = Vec::new();
            let st = exec::run_history(h, first_no + i, cfg, &mut ev);
            events.append(&mut ev);
            st
        });
        agg.events += st.events;
        agg.builds_ok += st.builds_ok;
        agg.builds_err += st.builds_err;
        agg.panics += st.panics;
        agg.nontrivial_builds += st.nontrivial_builds;
        hashes.extend(st.state_hashes);
    }
    write_trace(&format!("{out_prefix}.ndjson"), &events);
    std::fs::write(format!("{out_prefix}.hist.json"), serde_json::to_string(&hists).unwrap()).unwrap();
    let stats = json!({"histories": hists.len(), "events": agg.events, "builds_ok": agg.builds_ok, "builds_err": agg.builds_err,
        "panics": agg.panics, "nontrivial_builds": agg.nontrivial_builds, "distinct_forests": hashes.len(), "threads": threads,
        "first_no": first_no});
    std::fs::write(format!("{out_prefix}.stats.json"), stats.to_string()).unwrap();
    println!("{stats}");
}

fn main() {
    let args: Vec<String> = std::env::args().collect();
    exec::quiet_panics();
    let cmd = args.get(1).map(|s| s.as_str()).unwrap_or("");
    match cmd {
        "gen" => {
            let profile = arg(&args, "--profile").unwrap_or("forest".into());
            let seed: u64 = arg(&args, "--seed").map(|s| s.parse().unwrap()).unwrap_or(1);
            let count: usize = arg(&args, "--count").map(|s| s.parse().unwrap()).unwrap_or(10);
            let threads: usize = arg(&args, "--threads").map(|s| s.parse().unwrap()).unwrap_or(1);
            let first_no: usize = arg(&args, "--first").map(|s| s.parse().unwrap()).unwrap_or(0);
            let out = arg(&args, "--out").expect("--out prefix");
            let p = gen::profile(&profile);
            let mut hs = Vec::new();
            if profile == "forest" && seed == 0 {
                hs.push(gen::straight_line());
            }
            for k in 0..count {
                hs.push(gen::gen_history(seed.wrapping_mul(1_000_003).wrapping_add(k as u64), &p));
            }
            run_many(&hs, threads, &exec::RunCfg::default(), &out, first_no);
        }
        "family" => {
            // special drivers: cancel | faults | mem | degenerate
            let kind = arg(&args, "--kind").expect("--kind");
            let seed: u64 = arg(&args, "--seed").map(|s| s.parse().unwrap()).unwrap_or(1);
            let count: usize = arg(&args, "--count").map(|s| s.parse().unwrap()).unwrap_or(4);
            let threads: usize = arg(&args, "--threads").map(|s| s.parse().unwrap()).unwrap_or(1);
            let first_no: usize = arg(&args, "--first").map(|s| s.parse().unwrap()).unwrap_or(0);
            let thorough = args.iter().any(|a| a == "--thorough");
            let out = arg(&args, "--out").expect("--out prefix");
            let mut hs = Vec::new();
            for k in 0..count {
                let s = seed.wrapping_mul(1_000_003).wrapping_add(k as u64);
                match kind.as_str() {
                    "cancel" => {
                        // phase 1: measure the polls of the fault-free build on a scratch run
                        let probe = gen2::cancel_history(s, None, thorough);
                        let mut ev = Vec::new();
                        let pool = rayon::ThreadPoolBuilder::new().num_threads(threads).build().unwrap();
                        pool.install(|| exec::run_history(&probe, 0, &exec::RunCfg { observe: false, sides: false, ..Default::default() }, &mut ev));
                        let polls = ev.iter().rev().find(|e| e["ev"] == "Build").map(|e| e["polls"].as_u64().unwrap()).unwrap_or(0);
                        hs.push(gen2::cancel_history(s, Some(polls), thorough));
                    }
                    "faults" => {
                        hs.extend(gen2::mapfull_histories(s));
                        hs.push(gen2::tmpdir_history(s));
                    }
                    "mem" => hs.push(gen2::mem_history(s, thorough)),
                    "degenerate" => hs.push(gen2::degenerate_history(s, thorough)),
                    other => panic!("unknown family {other}"),
                }
            }
            run_many(&hs, threads, &exec::RunCfg::default(), &out, first_no);
        }
        "nodeids" => {
            // --mode exhaustive|sample  --out prefix  [--seed S] [--budget N]
            let out = arg(&args, "--out").expect("--out prefix");
            let seed: u64 = arg(&args, "--seed").map(|s| s.parse().unwrap()).unwrap_or(1);
            let budget: usize = arg(&args, "--budget").map(|s| s.parse().unwrap()).unwrap_or(20000);
            let thorough = args.iter().any(|a| a == "--thorough");
            let mut lines = Vec::new();
            let mut summary = Vec::new();
            // sets of used ids: empty, dense, gaps (1, 2, 3 recyclable ids), "runs out mid-way"
            let useds: Vec<Vec<u32>> = vec![vec![], vec![0, 1], vec![1], vec![2], vec![0, 3], vec![3], vec![1, 4], vec![5]];
            let small: Vec<Vec<usize>> = vec![vec![1, 1], vec![2, 1], vec![2, 2], vec![1, 1, 1]];
            let big: Vec<Vec<usize>> = vec![vec![3, 2], vec![3, 3], vec![2, 1, 1], vec![2, 2, 1], vec![2, 2, 2], vec![3, 3, 3]];
            let mut exhaustive_cfgs = 0;
            for used in &useds {
                for reqs in &small {
                    if !thorough && reqs.len() == 3 && used.len() > 1 {
                        continue;
                    }
                    let (n, complete) = nodeids::explore_all(used, reqs, budget, &mut lines, 0);
                    if complete {
                        exhaustive_cfgs += 1;
                    }
                    summary.push(json!({"used": used, "reqs": reqs, "schedules": n, "complete": complete}));
                }
            }
            let mut k = 0u64;
            for used in &useds {
                for reqs in &big {
                    k += 1;
                    let n = nodeids::explore_random(used, reqs, if thorough { 600 } else { 60 }, seed.wrapping_mul(977).wrapping_add(k), &mut lines, 0);
                    summary.push(json!({"used": used, "reqs": reqs, "schedules": n, "complete": false}));
                }
            }
            for (i, l) in lines.iter_mut().enumerate() {
                l["n"] = json!(i as i64);
            }
            write_trace(&format!("{out}.ndjson"), &lines);
            let stats = json!({"schedules": lines.len(), "configs": summary.len(), "exhaustive_configs": exhaustive_cfgs, "summary": summary});
            std::fs::write(format!("{out}.stats.json"), stats.to_string()).unwrap();
            println!("{}", json!({"schedules": lines.len(), "configs": summary.len(), "exhaustive_configs": exhaustive_cfgs}));
        }
        "nodeids-replay" => {
            // re-executes one recorded schedule (the thread order of its steps) on the real code
            let file = arg(&args, "--file").expect("--file");
            let out = arg(&args, "--out").expect("--out prefix");
            let v: Value = serde_json::from_str(&std::fs::read_to_string(&file).unwrap()).unwrap();
            let line = if v.get("line").is_some() { v["line"].clone() } else { v };
            let used: Vec<u32> = line["used"].as_array().unwrap().iter().map(|x| x.as_u64().unwrap() as u32).collect();
            let reqs: Vec<usize> = line["reqs"].as_array().unwrap().iter().map(|x| x.as_u64().unwrap() as usize).collect();
            let order: Vec<usize> = line["steps"].as_array().unwrap().iter().map(|s| s[0].as_u64().unwrap() as usize - 1).collect();
            // translate "thread t" into "index among the enabled threads" on the fly
            let pcs = std::cell::RefCell::new(Vec::<usize>::new());
            let _ = &pcs;
            let mut remaining: Vec<usize> = (0..reqs.len()).collect();
            let mut choose = |step: usize, n: usize| {
                let _ = n;
                let want = order.get(step).copied().unwrap_or(remaining[0]);
                remaining.iter().position(|t| *t == want).unwrap_or(0)
            };
            // the enabled set shrinks as threads finish; rebuild it from the recorded order: a thread is
            // enabled at step k iff it still has a later (or current) step
            let r = {
                let mut k = 0usize;
                let order2 = order.clone();
                let mut ch = |step: usize, _n: usize| {
                    k = step;
                    let en: Vec<usize> = (0..reqs.len()).filter(|t| order2[step.min(order2.len().saturating_sub(1))..].contains(t)).collect();
                    let want = order2.get(step).copied().unwrap_or(en[0]);
                    en.iter().position(|t| *t == want).unwrap_or(0)
                };
                let _ = &mut choose;
                nodeids::run_schedule(&used, &reqs, &mut ch, 0)
            };
            write_trace(&format!("{out}.ndjson"), &[r.line]);
            println!("{}", json!({"schedules": 1}));
        }
        "replay" => {
            let file = arg(&args, "--hist").expect("--hist file");
            let out = arg(&args, "--out").expect("--out prefix");
            let threads: usize = arg(&args, "--threads").map(|s| s.parse().unwrap()).unwrap_or(1);
            let txt = std::fs::read_to_string(&file).unwrap();
            let v: Value = serde_json::from_str(&txt).unwrap();
            let hs: Vec<hist::History> = if v.is_array() {
                serde_json::from_value(v).unwrap()
            } else if v.get("history").is_some() {
                vec![serde_json::from_value(v["history"].clone()).unwrap()]
            } else {
                vec![serde_json::from_value(v).unwrap()]
            };
            let hs = match arg(&args, "--only") {
                Some(k) => vec![hs[k.parse::<usize>().unwrap()].clone()],
                None => hs,
            };
            run_many(&hs, threads, &exec::RunCfg::default(), &out, 0);
        }
        _ => {
            eprintln!("usage: harness gen|replay ...");
            std::process::exit(2);
        }
    }
}
