mod crash;
mod decode;
mod exec;
mod fixture;
mod gen;
mod gen2;
mod hist;
mod metric;
mod nodeids;
mod tmpnodes;
mod numeric;
mod search;
mod txn;
mod upgrade;

use std::collections::BTreeSet;
use std::io::Write;

use serde_json::{json, Value};

fn arg(args: &[String], name: &str) -> Option<String> {
    args.iter().position(|a| a == name).and_then(|p| args.get(p + 1)).cloned()
}

fn write_trace(path: &str, events: &[Value]) {
    let mut f = std::io::BufWriter::new(std::fs::File::create(path).unwrap());
    for e in events {
        writeln!(f, "{}", e).unwrap();
    }
}

/// `--crashed h:k:sig,...`: histories during which an earlier run of this very command was killed by a signal
/// raised from inside the code under test (stack overflow, segmentation fault, abort). They are not run again:
/// the trace gets a `Crash` event in their place.
fn crashed_list(args: &[String]) -> Vec<(usize, i64, i64)> {
    arg(args, "--crashed")
        .map(|s| {
            s.split(',')
                .filter(|x| !x.is_empty())
                .map(|x| {
                    let p: Vec<i64> = x.split(':').map(|y| y.parse().unwrap()).collect();
                    (p[0] as usize, p[1], p[2])
                })
                .collect()
        })
        .unwrap_or_default()
}

fn reset_event(h: &hist::History, hno: i64) -> Value {
    let mut sorted = h.indexes.clone();
    sorted.sort_by_key(|d| d.idx);
    json!({"ev":"Reset","h":hno,"idxs": sorted.iter().map(|d| json!({"real": d.idx as i64, "metric": d.metric.short(), "dim": d.dim as i64})).collect::<Vec<_>>(),
        "ids": [], "nids": 0, "label": h.label, "mapfull": false})
}

fn run_many(hists: &[hist::History], threads: usize, cfg: &exec::RunCfg, out_prefix: &str, first_no: usize) {
    let crashed = crashed_list(&std::env::args().collect::<Vec<_>>());
    // The histories run on a worker thread (inside a rayon pool of the requested size); this thread is the
    // wall-clock watchdog: a build that neither returns nor polls the cancellation callback cannot be
    // interrupted, so after VERIF_HANG_SECS without progress the trace collected so far is written with a
    // final `Hang` event and the process exits.
    use std::sync::{Arc, Mutex};
    let hang_secs: u64 = std::env::var("VERIF_HANG_SECS").ok().and_then(|s| s.parse().ok()).unwrap_or(150);
    let events: Arc<Mutex<Vec<Value>>> = Arc::new(Mutex::new(Vec::new()));
    let agg: Arc<Mutex<(exec::RunStats, BTreeSet<u64>, usize)>> = Arc::new(Mutex::new((exec::RunStats::default(), BTreeSet::new(), 0)));
    let (tx, rx) = std::sync::mpsc::channel::<bool>();
    let finish = |events: &Vec<Value>, agg: &(exec::RunStats, BTreeSet<u64>, usize), hung: bool| {
        write_trace(&format!("{out_prefix}.ndjson"), events);
        std::fs::write(format!("{out_prefix}.hist.json"), serde_json::to_string(&hists).unwrap()).unwrap();
        let a = &agg.0;
        let stats = json!({"histories": if hung { agg.2 + 1 } else { hists.len() }, "events": a.events, "builds_ok": a.builds_ok, "builds_err": a.builds_err,
            "panics": a.panics, "nontrivial_builds": a.nontrivial_builds, "distinct_forests": agg.1.len(), "threads": threads,
            "first_no": first_no, "hung": hung});
        std::fs::write(format!("{out_prefix}.stats.json"), stats.to_string()).unwrap();
        println!("{stats}");
    };
    std::thread::scope(|sc| {
        let events2 = events.clone();
        let agg2 = agg.clone();
        sc.spawn(move || {
            let pool = rayon::ThreadPoolBuilder::new().num_threads(threads).build().unwrap();
            for (i, h) in hists.iter().enumerate() {
                if let Some((_, k, sig)) = crashed.iter().find(|c| c.0 == first_no + i) {
                    let hno = (first_no + i) as i64;
                    let op = h.ops.get(*k as usize).map(|o| o.name()).unwrap_or("?");
                    let mut e = events2.lock().unwrap();
                    e.push(reset_event(h, hno));
                    e.push(json!({"ev":"Crash","h":hno,"k":*k,"op":op,"sig":*sig}));
                    drop(e);
                    let mut a = agg2.lock().unwrap();
                    a.0.events += 1;
                    a.2 = i + 1;
                    drop(a);
                    tx.send(false).ok();
                    continue;
                }
                let st = pool.install(|| {
                    let mut ev = Vec::new();
                    let st = exec::run_history(h, first_no + i, cfg, &mut ev);
                    events2.lock().unwrap().append(&mut ev);
                    st
                });
                let mut a = agg2.lock().unwrap();
                a.0.events += st.events;
                a.0.builds_ok += st.builds_ok;
                a.0.builds_err += st.builds_err;
                a.0.panics += st.panics;
                a.0.nontrivial_builds += st.nontrivial_builds;
                a.1.extend(st.state_hashes);
                a.2 = i + 1;
                drop(a);
                tx.send(false).ok();
            }
            tx.send(true).ok();
        });
        let mut last = *exec::PROGRESS.lock().unwrap();
        loop {
            match rx.recv_timeout(std::time::Duration::from_secs(hang_secs)) {
                Ok(true) => break,
                Ok(false) => continue,
                Err(_) => {
                    let now = *exec::PROGRESS.lock().unwrap();
                    if now != last {
                        last = now;
                        continue;
                    }
                    // no progress for hang_secs inside one operation (build, search or observation)
                    let mut ev = events.lock().unwrap().clone();
                    // the events of the hung history are still private to the worker: start it over in the trace
                    let hno = now.0;
                    let h = &hists[(hno as usize) - first_no];
                    ev.push(reset_event(h, hno));
                    ev.push(json!({"ev":"Hang","h":hno,"k":now.1,"secs":hang_secs as i64}));
                    let a = agg.lock().unwrap();
                    finish(&ev, &a, true);
                    std::process::exit(0);
                }
            }
        }
    });
    let ev = events.lock().unwrap();
    let a = agg.lock().unwrap();
    finish(&ev, &a, false);
}

fn main() {
    let args: Vec<String> = std::env::args().collect();
    exec::quiet_panics();
    let cmd = args.get(1).map(|s| s.as_str()).unwrap_or("");
    // machinery self-test only: die like the code under test could make this process die
    if std::env::var("VERIF_TEST_ABORT_DRIVER").map(|d| d == cmd).unwrap_or(false) {
        std::process::abort();
    }
    match cmd {
        "gen" => {
            let profile = arg(&args, "--profile").unwrap_or("forest".into());
            let seed: u64 = arg(&args, "--seed").map(|s| s.parse().unwrap()).unwrap_or(1);
            let count: usize = arg(&args, "--count").map(|s| s.parse().unwrap()).unwrap_or(10);
            let threads: usize = arg(&args, "--threads").map(|s| s.parse().unwrap()).unwrap_or(1);
            let first_no: usize = arg(&args, "--first").map(|s| s.parse().unwrap()).unwrap_or(0);
            let out = arg(&args, "--out").expect("--out prefix");
            let p = gen::profile(&profile);
            let mut hs = Vec::new();
            if profile == "forest" && seed == 0 {
                hs.push(gen::straight_line());
            }
            for k in 0..count {
                hs.push(gen::gen_history(seed.wrapping_mul(1_000_003).wrapping_add(k as u64), &p));
            }
            run_many(&hs, threads, &exec::RunCfg::default(), &out, first_no);
        }
        "family" => {
            // special drivers: cancel | faults | mem | degenerate
            let kind = arg(&args, "--kind").expect("--kind");
            let seed: u64 = arg(&args, "--seed").map(|s| s.parse().unwrap()).unwrap_or(1);
            let count: usize = arg(&args, "--count").map(|s| s.parse().unwrap()).unwrap_or(4);
            let threads: usize = arg(&args, "--threads").map(|s| s.parse().unwrap()).unwrap_or(1);
            let first_no: usize = arg(&args, "--first").map(|s| s.parse().unwrap()).unwrap_or(0);
            let thorough = args.iter().any(|a| a == "--thorough");
            let out = arg(&args, "--out").expect("--out prefix");
            let mut hs = Vec::new();
            for k in 0..count {
                let s = seed.wrapping_mul(1_000_003).wrapping_add(k as u64);
                match kind.as_str() {
                    "cancel" => {
                        // phase 1: measure the polls of the fault-free build on a scratch run
                        let probe = gen2::cancel_history(s, None, thorough);
                        let mut ev = Vec::new();
                        let pool = rayon::ThreadPoolBuilder::new().num_threads(threads).build().unwrap();
                        pool.install(|| exec::run_history(&probe, 0, &exec::RunCfg { observe: false, sides: false, ..Default::default() }, &mut ev));
                        let last = ev.iter().rev().find(|e| e["ev"] == "Build");
                        let polls = last.map(|e| e["polls"].as_u64().unwrap()).unwrap_or(0);
                        let bounds: Vec<u64> = last.and_then(|e| e["steps"].as_array()).map(|a| a.iter().map(|x| x[1].as_u64().unwrap_or(0)).collect()).unwrap_or_default();
                        hs.push(gen2::cancel_history_at(s, Some(polls), thorough, &bounds));
                    }
                    "faults" => {
                        // measuring run: the same operations under an ample map, to learn the page usage
                        let probe = gen2::mapfull_histories(s, None, false).pop().unwrap();
                        exec::PAGES_AFTER_COMMIT.lock().unwrap().clear();
                        let mut ev = Vec::new();
                        exec::run_history(&probe, 0, &exec::RunCfg::default(), &mut ev);
                        let pg = exec::PAGES_AFTER_COMMIT.lock().unwrap().clone();
                        let pages = if pg.len() >= 2 { Some((pg[0], *pg.last().unwrap())) } else { None };
                        hs.extend(gen2::mapfull_histories(s, pages, thorough));
                        // page-granular variant: measure what the last build needs, then enumerate the free pages
                        let probe = gen2::mapfull_pages_history(s, None, false);
                        exec::PAGES_AFTER_COMMIT.lock().unwrap().clear();
                        let mut ev = Vec::new();
                        exec::run_history(&probe, 0, &exec::RunCfg::default(), &mut ev);
                        let pg = exec::PAGES_AFTER_COMMIT.lock().unwrap().clone();
                        let need = if pg.len() >= 3 { Some(pg[2].saturating_sub(pg[1])) } else { None };
                        hs.push(gen2::mapfull_pages_history(s, need, thorough));
                        hs.push(gen2::tmpdir_history(s));
                    }
                    "mem" => hs.push(gen2::mem_history(s, thorough)),
                    "degenerate" => hs.push(gen2::degenerate_history(s, thorough)),
                    "neighbours" => hs.push(gen2::neighbours_history(s)),
                    "skewed" => hs.push(gen2::skewed_history(s, thorough)),
                    "overwrite" => hs.push(gen2::overwrite_history(s)),
                    other => panic!("unknown family {other}"),
                }
            }
            run_many(&hs, threads, &exec::RunCfg::default(), &out, first_no);
        }
        "nodeids" => {
            // --mode exhaustive|sample  --out prefix  [--seed S] [--budget N]
            let out = arg(&args, "--out").expect("--out prefix");
            let seed: u64 = arg(&args, "--seed").map(|s| s.parse().unwrap()).unwrap_or(1);
            let budget: usize = arg(&args, "--budget").map(|s| s.parse().unwrap()).unwrap_or(20000);
            let thorough = args.iter().any(|a| a == "--thorough");
            let mut lines = Vec::new();
            let mut summary = Vec::new();
            // sets of used ids: empty, dense, gaps (1, 2, 3 recyclable ids), "runs out mid-way"
            let useds: Vec<Vec<u32>> = vec![vec![], vec![0, 1], vec![1], vec![2], vec![0, 3], vec![3], vec![1, 4], vec![5]];
            let small: Vec<Vec<usize>> = vec![vec![1, 1], vec![2, 1], vec![2, 2], vec![1, 1, 1]];
            let big: Vec<Vec<usize>> = vec![vec![3, 2], vec![3, 3], vec![2, 1, 1], vec![2, 2, 1], vec![2, 2, 2], vec![3, 3, 3]];
            let mut exhaustive_cfgs = 0;
            for used in &useds {
                for reqs in &small {
                    if !thorough && reqs.len() == 3 && used.len() > 1 {
                        continue;
                    }
                    let (n, complete) = nodeids::explore_all(used, reqs, budget, &mut lines, 0);
                    if complete {
                        exhaustive_cfgs += 1;
                    }
                    summary.push(json!({"used": used, "reqs": reqs, "schedules": n, "complete": complete}));
                }
            }
            let mut k = 0u64;
            for used in &useds {
                for reqs in &big {
                    k += 1;
                    let n = nodeids::explore_random(used, reqs, if thorough { 600 } else { 60 }, seed.wrapping_mul(977).wrapping_add(k), &mut lines, 0);
                    summary.push(json!({"used": used, "reqs": reqs, "schedules": n, "complete": false}));
                }
            }
            for (i, l) in lines.iter_mut().enumerate() {
                l["n"] = json!(i as i64);
            }
            write_trace(&format!("{out}.ndjson"), &lines);
            let stats = json!({"schedules": lines.len(), "configs": summary.len(), "exhaustive_configs": exhaustive_cfgs, "summary": summary});
            std::fs::write(format!("{out}.stats.json"), stats.to_string()).unwrap();
            println!("{}", json!({"schedules": lines.len(), "configs": summary.len(), "exhaustive_configs": exhaustive_cfgs}));
        }
        "nodeids-replay" => {
            // re-executes one recorded schedule (the thread order of its steps) on the real code
            let file = arg(&args, "--file").expect("--file");
            let out = arg(&args, "--out").expect("--out prefix");
            let v: Value = serde_json::from_str(&std::fs::read_to_string(&file).unwrap()).unwrap();
            let line = if v.get("line").is_some() { v["line"].clone() } else { v };
            let used: Vec<u32> = line["used"].as_array().unwrap().iter().map(|x| x.as_u64().unwrap() as u32).collect();
            let reqs: Vec<usize> = line["reqs"].as_array().unwrap().iter().map(|x| x.as_u64().unwrap() as usize).collect();
            let order: Vec<usize> = line["steps"].as_array().unwrap().iter().map(|s| s[0].as_u64().unwrap() as usize - 1).collect();
            // translate "thread t" into "index among the enabled threads" on the fly
            let pcs = std::cell::RefCell::new(Vec::<usize>::new());
            let _ = &pcs;
            let mut remaining: Vec<usize> = (0..reqs.len()).collect();
            let mut choose = |step: usize, n: usize| {
                let _ = n;
                let want = order.get(step).copied().unwrap_or(remaining[0]);
                remaining.iter().position(|t| *t == want).unwrap_or(0)
            };
            // the enabled set shrinks as threads finish; rebuild it from the recorded order: a thread is
            // enabled at step k iff it still has a later (or current) step
            let r = {
                let mut k = 0usize;
                let order2 = order.clone();
                let mut ch = |step: usize, _n: usize| {
                    k = step;
                    let en: Vec<usize> = (0..reqs.len()).filter(|t| order2[step.min(order2.len().saturating_sub(1))..].contains(t)).collect();
                    let want = order2.get(step).copied().unwrap_or(en[0]);
                    en.iter().position(|t| *t == want).unwrap_or(0)
                };
                let _ = &mut choose;
                nodeids::run_schedule(&used, &reqs, &mut ch, 0)
            };
            write_trace(&format!("{out}.ndjson"), &[r.line]);
            println!("{}", json!({"schedules": 1}));
        }
        "crash-child" => crash::child(&args),
        "crash" => {
            let seed: u64 = arg(&args, "--seed").map(|s| s.parse().unwrap()).unwrap_or(1);
            let count: usize = arg(&args, "--count").map(|s| s.parse().unwrap()).unwrap_or(2);
            let out = arg(&args, "--out").expect("--out prefix");
            let first_no: usize = arg(&args, "--first").map(|s| s.parse().unwrap()).unwrap_or(0);
            let thorough = args.iter().any(|a| a == "--thorough");
            let mut lines = Vec::new();
            let mut points = 0;
            for k in 0..count {
                // the uninterrupted run and the recoveries execute arroy in this process: a panic there is data
                let hno = first_no + k;
                match std::panic::catch_unwind(|| crash::parent(seed.wrapping_mul(1_000_003).wrapping_add(k as u64), hno, thorough)) {
                    Ok((ev, n)) => {
                        lines.extend(ev);
                        points += n;
                    }
                    Err(p) => {
                        lines.push(json!({"ev":"C.Reset","h":hno as i64,"readers":1}));
                        lines.push(json!({"ev":"C.Failed","h":hno as i64,"seq":0,"msg":exec::panic_msg(p)}));
                        points += 1;
                    }
                }
            }
            write_trace(&format!("{out}.ndjson"), &lines);
            std::fs::write(format!("{out}.hist.json"), json!((0..count).map(|k| json!({"label": format!("crash:{}", seed.wrapping_mul(1_000_003).wrapping_add(k as u64)), "indexes": [], "ops": []})).collect::<Vec<_>>()).to_string()).unwrap();
            println!("{}", json!({"histories": count, "events": lines.len(), "kill_points": points, "builds_ok": 0, "builds_err": 0, "panics": 0,
                "nontrivial_builds": 0, "distinct_forests": points, "first_no": first_no, "threads": 1}));
        }
        "txn" => {
            let seed: u64 = arg(&args, "--seed").map(|s| s.parse().unwrap()).unwrap_or(1);
            let count: usize = arg(&args, "--count").map(|s| s.parse().unwrap()).unwrap_or(2);
            let out = arg(&args, "--out").expect("--out prefix");
            let first_no: usize = arg(&args, "--first").map(|s| s.parse().unwrap()).unwrap_or(0);
            let thorough = args.iter().any(|a| a == "--thorough");
            let mut lines = Vec::new();
            let mut observes = 0;
            for k in 0..count {
                let s = seed.wrapping_mul(1_000_003).wrapping_add(k as u64);
                let readers = [1usize, 2, 4, 8][(s % 4) as usize];
                let bt = [1usize, 1, 4][(s % 3) as usize];
                let ev = txn::run(s, first_no + k, readers, if thorough { 12 } else { 6 }, bt);
                observes += ev.iter().filter(|e| e["ev"] == "R.Observe").count();
                lines.extend(ev);
            }
            write_trace(&format!("{out}.ndjson"), &lines);
            std::fs::write(format!("{out}.hist.json"), json!((0..count).map(|k| json!({"label": format!("txn:{}", seed.wrapping_mul(1_000_003).wrapping_add(k as u64)), "indexes": [], "ops": []})).collect::<Vec<_>>()).to_string()).unwrap();
            println!("{}", json!({"histories": count, "events": lines.len(), "observations": observes, "builds_ok": 0, "builds_err": 0, "panics": 0,
                "nontrivial_builds": 0, "distinct_forests": observes, "first_no": first_no, "threads": 0}));
        }
        "fixture-gen" => {
            let out = arg(&args, "--out").unwrap_or("/verif/fixtures".into());
            fixture::generate(&out);
            println!("fixtures written to {out}");
        }
        "fixture-check" => {
            let dir = arg(&args, "--dir").unwrap_or("/verif/fixtures".into());
            let seed: u64 = arg(&args, "--seed").map(|s| s.parse().unwrap()).unwrap_or(1);
            let out = arg(&args, "--out").expect("--out prefix");
            let first_no: usize = arg(&args, "--first").map(|s| s.parse().unwrap()).unwrap_or(0);
            let mut lines = Vec::new();
            let (n, hs) = fixture::check(&dir, seed, first_no, &mut lines);
            write_trace(&format!("{out}.ndjson"), &lines);
            std::fs::write(format!("{out}.hist.json"), serde_json::to_string(&hs).unwrap()).unwrap();
            println!("{}", json!({"histories": n, "events": lines.len(), "builds_ok": 0, "builds_err": 0, "panics": 0,
                "nontrivial_builds": 0, "distinct_forests": n, "first_no": first_no, "threads": 1}));
        }
        "upgrade" => {
            let seed: u64 = arg(&args, "--seed").map(|s| s.parse().unwrap()).unwrap_or(1);
            let count: usize = arg(&args, "--count").map(|s| s.parse().unwrap()).unwrap_or(10);
            let out = arg(&args, "--out").expect("--out prefix");
            let first_no: usize = arg(&args, "--first").map(|s| s.parse().unwrap()).unwrap_or(0);
            let mut lines = Vec::new();
            let n = upgrade::run(seed, count, first_no, &mut lines);
            write_trace(&format!("{out}.ndjson"), &lines);
            std::fs::write(format!("{out}.hist.json"), "[]").unwrap();
            println!("{}", json!({"histories": n, "events": lines.len(), "builds_ok": 0, "builds_err": 0, "panics": 0,
                "nontrivial_builds": 0, "distinct_forests": n, "first_no": first_no, "threads": 1}));
        }
        "numeric" => {
            let kind = arg(&args, "--kind").expect("--kind bq|kernel");
            let seed: u64 = arg(&args, "--seed").map(|s| s.parse().unwrap()).unwrap_or(1);
            let out = arg(&args, "--out").expect("--out prefix");
            let thorough = args.iter().any(|a| a == "--thorough");
            let mut lines = Vec::new();
            let n = if kind == "bq" { numeric::bq_cases(seed, thorough, &mut lines) } else { numeric::kernel_cases(seed, thorough, &mut lines) };
            let cases: usize = lines.iter().map(|e| e.get("cases").or(e.get("conv")).or(e.get("items")).and_then(|c| c.as_array()).map(|a| a.len()).unwrap_or(0)
                + e.get("pairs").and_then(|c| c.as_array()).map(|a| a.len()).unwrap_or(0)).sum();
            write_trace(&format!("{out}.ndjson"), &lines);
            std::fs::write(format!("{out}.hist.json"), "[]").unwrap();
            println!("{}", json!({"histories": n, "events": cases, "builds_ok": 0, "builds_err": 0, "panics": 0,
                "nontrivial_builds": 0, "distinct_forests": cases, "first_no": 0, "threads": 1}));
        }
        "tmpnodes" => {
            // operation sequences on the real write-back buffer (hook H5), for TraceTmp.tla
            let seed: u64 = arg(&args, "--seed").map(|s| s.parse().unwrap()).unwrap_or(1);
            let out = arg(&args, "--out").expect("--out prefix");
            let thorough = args.iter().any(|a| a == "--thorough");
            let mut lines = Vec::new();
            let (exhaustive, random) = tmpnodes::cases(seed, thorough, &mut lines);
            write_trace(&format!("{out}.ndjson"), &lines);
            std::fs::write(format!("{out}.hist.json"), "[]").unwrap();
            println!("{}", json!({"histories": lines.len(), "events": lines.len(), "builds_ok": 0, "builds_err": 0, "panics": 0,
                "nontrivial_builds": 0, "distinct_forests": 0, "first_no": 0, "threads": 1, "exhaustive_sequences": exhaustive, "random_sequences": random}));
        }
        "from-model" => {
            // histories printed by TLC from Replay.tla (one JSON array per line)
            let file = arg(&args, "--file").expect("--file");
            let seed: u64 = arg(&args, "--seed").map(|s| s.parse().unwrap()).unwrap_or(1);
            let threads: usize = arg(&args, "--threads").map(|s| s.parse().unwrap()).unwrap_or(1);
            let first_no: usize = arg(&args, "--first").map(|s| s.parse().unwrap()).unwrap_or(0);
            let out = arg(&args, "--out").expect("--out prefix");
            let hs: Vec<hist::History> = std::fs::read_to_string(&file)
                .unwrap()
                .lines()
                .filter(|l| !l.trim().is_empty())
                .enumerate()
                .map(|(k, l)| gen2::history_from_model(&serde_json::from_str(l).unwrap(), seed.wrapping_mul(7919).wrapping_add(k as u64)))
                .collect();
            run_many(&hs, threads, &exec::RunCfg::default(), &out, first_no);
        }
        "replay" => {
            let file = arg(&args, "--hist").expect("--hist file");
            let out = arg(&args, "--out").expect("--out prefix");
            let threads: usize = arg(&args, "--threads").map(|s| s.parse().unwrap()).unwrap_or(1);
            let txt = std::fs::read_to_string(&file).unwrap();
            let v: Value = serde_json::from_str(&txt).unwrap();
            let hs: Vec<hist::History> = if v.is_array() {
                serde_json::from_value(v).unwrap()
            } else if v.get("history").is_some() {
                vec![serde_json::from_value(v["history"].clone()).unwrap()]
            } else {
                vec![serde_json::from_value(v).unwrap()]
            };
            let hs = match arg(&args, "--only") {
                Some(k) => vec![hs[k.parse::<usize>().unwrap()].clone()],
                None => hs,
            };
            run_many(&hs, threads, &exec::RunCfg::default(), &out, 0);
        }
        _ => {
            eprintln!("usage: harness gen|replay ...");
            std::process::exit(2);
        }
    }
}
