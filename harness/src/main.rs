fn main(){ println!("ok"); }
