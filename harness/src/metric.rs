//! The seven metrics, seen from outside arroy: names, header widths, vector codecs and the
//! f64 oracles for distances. Written from DESIGN.md Appendix A and the property texts,
//! never from arroy's codecs.

use serde::{Deserialize, Serialize};

#[derive(Clone, Copy, Debug, PartialEq, Eq, Hash, Serialize, Deserialize, PartialOrd, Ord)]
pub enum Metric {
    Euclidean,
    Manhattan,
    Cosine,
    DotProduct,
    BqEuclidean,
    BqManhattan,
    BqCosine,
}

pub const ALL_METRICS: [Metric; 7] = [
    Metric::Euclidean,
    Metric::Manhattan,
    Metric::Cosine,
    Metric::DotProduct,
    Metric::BqEuclidean,
    Metric::BqManhattan,
    Metric::BqCosine,
];

impl Metric {
    pub fn name(self) -> &'static str {
        match self {
            Metric::Euclidean => "euclidean",
            Metric::Manhattan => "manhattan",
            Metric::Cosine => "cosine",
            Metric::DotProduct => "dot-product",
            Metric::BqEuclidean => "binary quantized euclidean",
            Metric::BqManhattan => "binary quantized manhattan",
            Metric::BqCosine => "binary quantized cosine",
        }
    }
    pub fn from_name(s: &str) -> Option<Metric> {
        ALL_METRICS.iter().copied().find(|m| m.name() == s)
    }
    pub fn short(self) -> &'static str {
        match self {
            Metric::Euclidean => "euc",
            Metric::Manhattan => "man",
            Metric::Cosine => "cos",
            Metric::DotProduct => "dot",
            Metric::BqEuclidean => "bqe",
            Metric::BqManhattan => "bqm",
            Metric::BqCosine => "bqc",
        }
    }
    pub fn from_short(s: &str) -> Option<Metric> {
        ALL_METRICS.iter().copied().find(|m| m.short() == s)
    }
    pub fn is_bq(self) -> bool {
        matches!(self, Metric::BqEuclidean | Metric::BqManhattan | Metric::BqCosine)
    }
    /// width in bytes of the leaf header (Appendix A)
    pub fn header_len(self) -> usize {
        match self {
            Metric::DotProduct => 8,
            _ => 4,
        }
    }
    /// width in bytes of a vector of `dim` components
    pub fn vec_len(self, dim: usize) -> usize {
        if self.is_bq() {
            8 * ((dim + 63) / 64)
        } else {
            4 * dim
        }
    }
    pub fn default_oversampling(self) -> usize {
        if self.is_bq() {
            3
        } else {
            1
        }
    }
}

/// Run `$body` with the type alias `$D` bound to arroy's distance type for `$m`.
#[macro_export]
macro_rules! with_metric {
    ($m:expr, $D:ident, $body:block) => {
        match $m {
            $crate::metric::Metric::Euclidean => {
                type $D = arroy::distances::Euclidean;
                $body
            }
            $crate::metric::Metric::Manhattan => {
                type $D = arroy::distances::Manhattan;
                $body
            }
            $crate::metric::Metric::Cosine => {
                type $D = arroy::distances::Cosine;
                $body
            }
            $crate::metric::Metric::DotProduct => {
                type $D = arroy::distances::DotProduct;
                $body
            }
            $crate::metric::Metric::BqEuclidean => {
                type $D = arroy::distances::BinaryQuantizedEuclidean;
                $body
            }
            $crate::metric::Metric::BqManhattan => {
                type $D = arroy::distances::BinaryQuantizedManhattan;
                $body
            }
            $crate::metric::Metric::BqCosine => {
                type $D = arroy::distances::BinaryQuantizedCosine;
                $body
            }
        }
    };
}

/// What a vector written by the user is *represented as* under the metric, at the declared
/// dimension: itself for the f32 metrics, +1/-1 by sign bit for the quantised ones.
pub fn represent(m: Metric, v: &[f32]) -> Vec<f32> {
    if m.is_bq() {
        v.iter().map(|x| if x.is_sign_positive() { 1.0 } else { -1.0 }).collect()
    } else {
        v.to_vec()
    }
}

/// f64 oracle of the *reported* distance between a query and a stored vector, both given as the
/// metric represents them (see `represent`). Returns (distance, abs tolerance).
/// The tolerance bounds single-precision summation error: d * eps_f32 * accumulated magnitude,
/// with a small floor.
pub fn oracle_distance(m: Metric, q: &[f32], s: &[f32]) -> (f64, f64) {
    let (d, t) = oracle_distance_inner(m, q, s);
    if d.is_finite() && t.is_finite() {
        (d, t)
    } else {
        (d, f64::INFINITY)
    }
}

/// Beyond this accumulated magnitude single-precision partial sums may overflow: the property's
/// "rounding error of single-precision summation" makes no claim there (tolerance = infinity).
const OVERFLOW_ZONE: f64 = (f32::MAX as f64) / 8.0;
/// Below this squared norm the products underflow in f32 (lost bits): no claim for ratios.
const UNDERFLOW_ZONE: f64 = 1e-28;

fn oracle_distance_inner(m: Metric, q: &[f32], s: &[f32]) -> (f64, f64) {
    let d = q.len();
    let eps = f32::EPSILON as f64; // 2^-23
    let n = d.max(1) as f64;
    match m {
        Metric::Euclidean => {
            let sum: f64 = q.iter().zip(s).map(|(a, b)| (*a as f64 - *b as f64).powi(2)).sum();
            if sum > OVERFLOW_ZONE {
                return (sum.sqrt(), f64::INFINITY);
            }
            let dist = sum.sqrt();
            // relative error of the sum <= (n+2) eps, sqrt halves it; the floor covers squares that underflow
            let tol = dist * (n + 4.0) * eps + 1e-17;
            (dist, tol)
        }
        Metric::Manhattan => {
            let sum: f64 = q.iter().zip(s).map(|(a, b)| (*a as f64 - *b as f64).abs()).sum();
            if sum > OVERFLOW_ZONE {
                return (sum, f64::INFINITY);
            }
            (sum, sum * (n + 4.0) * eps + 1e-37)
        }
        Metric::Cosine => {
            let pq: f64 = q.iter().zip(s).map(|(a, b)| *a as f64 * *b as f64).sum();
            let abs_pq: f64 = q.iter().zip(s).map(|(a, b)| (*a as f64 * *b as f64).abs()).sum();
            let pn2: f64 = q.iter().map(|a| (*a as f64).powi(2)).sum::<f64>();
            let qn2: f64 = s.iter().map(|a| (*a as f64).powi(2)).sum::<f64>();
            if pn2 > OVERFLOW_ZONE || qn2 > OVERFLOW_ZONE || abs_pq > OVERFLOW_ZONE {
                return (0.5, f64::INFINITY);
            }
            if pn2 == 0.0 || qn2 == 0.0 {
                // a norm vanishes: 0 by definition
                return (0.0, 1e-12);
            }
            if pn2 < UNDERFLOW_ZONE || qn2 < UNDERFLOW_ZONE {
                return (0.5, f64::INFINITY);
            }
            let pnqn = pn2.sqrt() * qn2.sqrt();
            if pnqn > (f32::EPSILON as f64) * 4.0 {
                let cos = (pq / pnqn).clamp(-1.0, 1.0);
                let tol = ((n + 8.0) * eps * (abs_pq / pnqn + 1.0)) + 1e-7;
                ((1.0 - cos) / 2.0, tol)
            } else {
                // product of norms around the code's vanishing threshold: either branch is tolerated
                (0.5, f64::INFINITY)
            }
        }
        Metric::DotProduct => {
            let pq: f64 = q.iter().zip(s).map(|(a, b)| *a as f64 * *b as f64).sum();
            let abs_pq: f64 = q.iter().zip(s).map(|(a, b)| (*a as f64 * *b as f64).abs()).sum();
            if abs_pq > OVERFLOW_ZONE {
                return (pq, f64::INFINITY);
            }
            (pq, abs_pq * (n + 4.0) * eps + (n + 1.0) * 1e-37)
        }
        Metric::BqEuclidean => {
            let h = q.iter().zip(s).filter(|(a, b)| a.is_sign_positive() != b.is_sign_positive()).count();
            let v = 4.0 * h as f64 / d as f64;
            (v, v * 4.0 * eps + 1e-12)
        }
        Metric::BqManhattan => {
            let h = q.iter().zip(s).filter(|(a, b)| a.is_sign_positive() != b.is_sign_positive()).count();
            let v = 2.0 * h as f64 / d as f64;
            (v, v * 4.0 * eps + 1e-12)
        }
        Metric::BqCosine => {
            let h = q.iter().zip(s).filter(|(a, b)| a.is_sign_positive() != b.is_sign_positive()).count();
            let dp = 64 * ((d + 63) / 64);
            let v = h as f64 / dp as f64;
            (v, 8.0 * eps + 1e-12)
        }
    }
}

/// "Nearer" order key of a reported distance: DotProduct reports the inner product itself,
/// larger meaning nearer; everything else smaller meaning nearer.
pub fn nearness_key(m: Metric, reported: f64) -> f64 {
    if m == Metric::DotProduct {
        -reported
    } else {
        reported
    }
}
