//! Search observations (C02, C03, C04): a lattice of query options evaluated on one
//! transaction, projected to tie-class ranks with the f64 oracle of `metric.rs`.

use std::collections::BTreeMap;
use std::num::NonZeroUsize;
use std::panic::{catch_unwind, AssertUnwindSafe};

use heed::RoTxn;
use rand::rngs::StdRng;
use rand::{Rng, SeedableRng};
use roaring::RoaringBitmap;
use serde_json::{json, Value};

use crate::decode;
use crate::exec::{dump, err_class, panic_msg, Ctx, RawDb};
use crate::metric::{nearness_key, oracle_distance, represent, Metric};
use crate::with_metric;

#[derive(Clone, Debug)]
pub struct QOpts {
    pub count: usize,
    pub search_k: Option<usize>,
    pub over: Option<usize>,
}

pub type QRes = Result<Option<Vec<(u32, f32)>>, Value>;

/// one query through the public API; panics and errors are data
pub fn run_query(
    rtxn: &RoTxn,
    db: RawDb,
    idx: u16,
    metric: Metric,
    by_item: Option<u32>,
    qvec: &[f32],
    o: &QOpts,
    filter: Option<&RoaringBitmap>,
) -> QRes {
    let r = catch_unwind(AssertUnwindSafe(|| {
        with_metric!(metric, D, {
            let adb: arroy::Database<D> = db.remap_types();
            let reader = arroy::Reader::<D>::open(rtxn, idx, adb)?;
            let mut qb = reader.nns(o.count);
            if let Some(k) = o.search_k {
                qb.search_k(NonZeroUsize::new(k).unwrap());
            }
            if let Some(k) = o.over {
                qb.oversampling(NonZeroUsize::new(k).unwrap());
            }
            if let Some(f) = filter {
                qb.candidates(f);
            }
            match by_item {
                Some(id) => qb.by_item(rtxn, id),
                None => qb.by_vector(rtxn, qvec).map(Some),
            }
        })
    }));
    match r {
        Ok(Ok(v)) => Ok(v),
        Ok(Err(e)) => Err(err_class(&e)),
        Err(p) => Err(json!({"c":"Panic","msg":panic_msg(p)})),
    }
}

fn cap(x: u128) -> i64 {
    x.min(1 << 30) as i64
}

/// tie classes of the population under the oracle: dense class ranks, ascending nearness.
/// Adjacent items (in oracle order) whose keys differ by no more than the sum of their tolerances
/// are chained into one class; non-finite oracle values form a last class 0-marked as "na".
pub fn tie_classes(metric: Metric, q: &[f32], pop: &[(u32, Vec<f32>)]) -> BTreeMap<u32, (i64, f64, f64)> {
    let mut v: Vec<(u32, f64, f64)> = pop
        .iter()
        .map(|(id, s)| {
            let (d, t) = oracle_distance(metric, q, s);
            (*id, d, t)
        })
        .collect();
    let mut out = BTreeMap::new();
    let (mut fin, nonfin): (Vec<_>, Vec<_>) = v.drain(..).partition(|(_, d, t)| d.is_finite() && t.is_finite());
    fin.sort_by(|a, b| nearness_key(metric, a.1).partial_cmp(&nearness_key(metric, b.1)).unwrap().then(a.0.cmp(&b.0)));
    let mut cls = 0i64;
    let mut prev: Option<(f64, f64)> = None;
    for (id, d, t) in fin {
        let k = nearness_key(metric, d);
        match prev {
            Some((pk, pt)) if k - pk <= pt + t => {}
            _ => cls += 1,
        }
        prev = Some((k, t));
        out.insert(id, (cls, d, t));
    }
    // non-finite: no accuracy claim, one shared class of rank -1 ("unordered")
    for (id, d, t) in nonfin {
        out.insert(id, (-1, d, t));
    }
    out
}

fn project_result(ctx: &Ctx, metric: Metric, res: &QRes, classes: &BTreeMap<u32, (i64, f64, f64)>) -> Value {
    match res {
        Err(e) => e.clone(),
        Ok(None) => json!({"c":"None"}),
        Ok(Some(v)) => {
            let ids: Vec<i64> = v.iter().map(|(id, _)| ctx.rank(*id)).collect();
            let cls: Vec<i64> = v.iter().map(|(id, _)| classes.get(id).map(|c| c.0).unwrap_or(0)).collect();
            // reported distance agrees with the oracle (1), disagrees (0), or no claim (2: non-finite / unknown id)
            let dok: Vec<i64> = v
                .iter()
                .map(|(id, d)| match classes.get(id) {
                    Some((c, od, t)) if *c > 0 => {
                        if ((*d as f64) - od).abs() <= *t {
                            1
                        } else {
                            0
                        }
                    }
                    _ => 2,
                })
                .collect();
            // reported distances are ordered nearest first under the total order on f32 (NaN last)
            let key = |d: f32| -> f32 {
                if metric == Metric::DotProduct {
                    -d
                } else {
                    d
                }
            };
            // OrderedFloat's total order: NaN is the greatest value and equal to itself
            let le = |a: f32, b: f32| if a.is_nan() { b.is_nan() } else { b.is_nan() || a <= b };
            // only among results for which the oracle makes a claim (finite, outside the overflow zone)
            let claimed: Vec<f32> = v.iter().filter(|(id, _)| classes.get(id).map_or(false, |c| c.0 > 0)).map(|(_, d)| *d).collect();
            let ord = claimed.windows(2).all(|w| le(key(w[0]), key(w[1])));
            json!({"c":"Ok","ids":ids,"cls":cls,"dok":dok,"ord":ord})
        }
    }
}

fn same_result(a: &QRes, b: &QRes) -> bool {
    match (a, b) {
        (Ok(Some(x)), Ok(Some(y))) => x.len() == y.len() && x.iter().zip(y).all(|(p, q)| p.0 == q.0 && p.1.to_bits() == q.1.to_bits()),
        (Ok(None), Ok(None)) => true,
        _ => false,
    }
}

/// The Search event body.
pub fn search_event(ctx: &mut Ctx, rtxn: &RoTxn, db: RawDb, idx: u16, metric: Metric, dim: usize, seed: u64) -> Value {
    let mut rng = StdRng::seed_from_u64(seed);
    // stored vectors from the raw dump through the reference decoder
    let d = dump(db, rtxn);
    let dec = decode::decode_dump(&d, &|_| Some(metric));
    let empty = decode::IndexRaw::default();
    let ir = dec.get(&idx).unwrap_or(&empty);
    let mut stored: Vec<(u32, Vec<f32>)> = Vec::new();
    for (id, leaf) in &ir.leaves {
        if let Ok(mut v) = decode::decode_vector(metric, &leaf.vector) {
            v.truncate(dim);
            stored.push((*id, v));
        }
    }
    let n = stored.len();
    let ntrees = ir.meta.as_ref().map(|m| m.roots.len()).unwrap_or(0);
    // does the reader open at all?
    let probe = run_query(rtxn, db, idx, metric, None, &vec![0.0; dim], &QOpts { count: 1, search_k: None, over: None }, None);
    if let Err(e) = &probe {
        if e["c"] != "Panic" || n == 0 {
            return json!({"open": e["c"], "n": n as i64});
        }
    }
    let dov = metric.default_oversampling();

    // --- query vectors
    let mut queries: Vec<(Option<u32>, Vec<f32>)> = Vec::new();
    let rv = |rng: &mut StdRng| -> Vec<f32> { (0..dim).map(|_| rng.gen_range(-3.0f32..3.0)).collect() };
    queries.push((None, rv(&mut rng)));
    if n > 0 {
        let (id, v) = &stored[rng.gen_range(0..n)];
        queries.push((Some(*id), v.clone()));
        let (_, v) = &stored[rng.gen_range(0..n)];
        queries.push((None, v.clone()));
    }
    match rng.gen_range(0..3) {
        0 => queries.push((None, vec![0.0; dim])),
        1 => queries.push((None, (0..dim).map(|_| if rng.gen() { 1.0e6 } else { -1.0e6 }).collect())),
        _ => {}
    }

    // --- filters
    let all_ids: Vec<u32> = stored.iter().map(|s| s.0).collect();
    let mk_filter = |name: &str, rng: &mut StdRng| -> Option<RoaringBitmap> {
        match name {
            "none" => None,
            "empty" => Some(RoaringBitmap::new()),
            "disjoint" => Some(ctx_disjoint(&all_ids)),
            "half" => Some(all_ids.iter().copied().filter(|_| rng.gen_bool(0.5)).collect()),
            "super" => {
                let mut b: RoaringBitmap = all_ids.iter().copied().collect();
                b |= ctx_disjoint(&all_ids);
                Some(b)
            }
            _ => unreachable!(),
        }
    };
    let filter_names = ["none", "empty", "disjoint", "half", "super"];

    let big_counts: [(usize, &str); 3] = [(usize::MAX, "MAX"), (1usize << 63, "2^63"), ((1usize << 62) + 1, "2^62+1")];
    let mut qout = Vec::new();
    let mut n_results = 0;
    for (by_item, qv) in &queries {
        let qrep = represent(metric, qv);
        let prio = split_priorities(ctx, ir, metric, qv);
        let mut groups = Vec::new();
        // group 0 is always the unfiltered one, plus one random other filter
        let fsel = ["none", filter_names[rng.gen_range(1..5)]];
        for fname in fsel {
            let filter = mk_filter(fname, &mut rng);
            let pop: Vec<(u32, Vec<f32>)> = stored.iter().filter(|(id, _)| filter.as_ref().map_or(true, |f| f.contains(*id))).cloned().collect();
            let classes = tie_classes(metric, &qrep, &pop);
            let popj: Vec<Value> = pop.iter().map(|(id, _)| json!([ctx.rank(*id), classes[id].0])).collect();
            // two (count, over) settings per filter, each with a chain over search_k
            let small = [0usize, 1, 3, n.saturating_sub(1), n, n + 5];
            let c1 = small[rng.gen_range(0..small.len())];
            let (c2, c2name) = big_counts[rng.gen_range(0..3)];
            let overs = [None, Some(1usize), Some(3), Some(usize::MAX)];
            let mut chains = Vec::new();
            for (count, cname) in [(c1, None), (c2, Some(c2name))] {
                let over = overs[rng.gen_range(0..4)];
                let sks: Vec<Option<usize>> = vec![None, Some(1), Some(2), Some(5), Some(n.max(1)), Some(10 * n.max(1)), Some(usize::MAX)];
                let mut chain = Vec::new();
                let mut raw: Vec<QRes> = Vec::new();
                for sk in &sks {
                    let o = QOpts { count, search_k: *sk, over };
                    let r = run_query(rtxn, db, idx, metric, *by_item, qv, &o, filter.as_ref());
                    n_results += 1;
                    let base: u128 = match sk {
                        Some(k) => *k as u128,
                        None => count as u128 * ntrees as u128,
                    };
                    let base = base.min(usize::MAX as u128);
                    let mult: u128 = over.unwrap_or(dov) as u128;
                    let budget = (base * mult).min(usize::MAX as u128);
                    chain.push(json!({
                        "sk": sk.map(|k| cap(k as u128)).unwrap_or(0), "budget": cap(budget),
                        "res": project_result(ctx, metric, &r, &classes),
                    }));
                    raw.push(r);
                }
                // documented default: unset budget == count x n_trees (saturating) with the same oversampling
                let prod = (count as u128 * ntrees as u128).min(usize::MAX as u128) as usize;
                let dflt_same = if prod >= 1 {
                    let o = QOpts { count, search_k: Some(prod), over };
                    let r = run_query(rtxn, db, idx, metric, *by_item, qv, &o, filter.as_ref());
                    json!(same_result(&r, &raw[0]) as i64)
                } else {
                    json!(2)
                };
                // by_item(id) == by_vector(vector(id))
                let byitem_eq = if let Some(id) = by_item {
                    let _ = id;
                    let o = QOpts { count, search_k: Some(usize::MAX), over };
                    let a = run_query(rtxn, db, idx, metric, *by_item, qv, &o, filter.as_ref());
                    let b = run_query(rtxn, db, idx, metric, None, qv, &o, filter.as_ref());
                    json!(same_result(&a, &b) as i64)
                } else {
                    json!(2)
                };
                chains.push(json!({
                    "count": cname.map(|s| s.to_string()).unwrap_or(count.to_string()),
                    "count_eff": count.min(pop.len()) as i64,
                    "over": over.map(|k| cap(k as u128)).unwrap_or(0),
                    "chain": chain, "dflt_same": dflt_same, "byitem_eq": byitem_eq,
                }));
            }
            groups.push(json!({"filter": fname, "pop": popj, "chains": chains}));
        }
        qout.push(json!({"kind": if by_item.is_some() {"item"} else {"vec"}, "qid": by_item.map(|i| ctx.rank(i)).unwrap_or(0), "groups": groups, "prio": prio}));
    }

    // unknown id => None
    let unknown_id = (0..=u32::MAX).rev().find(|x| !all_ids.contains(x)).unwrap();
    let unk = run_query(rtxn, db, idx, metric, Some(unknown_id), &[], &QOpts { count: 3, search_k: None, over: None }, None);
    let unknown = match unk {
        Ok(None) => json!("None"),
        Ok(Some(_)) => json!("Some"),
        Err(e) => e["c"].clone(),
    };
    // wrong dimension => DimErr with both lengths, for several lengths (C19)
    let mut baddim = Vec::new();
    for len in [0usize, dim.saturating_sub(1), dim + 1, 4 * dim, 1000] {
        if len == dim {
            continue;
        }
        let r = run_query(rtxn, db, idx, metric, None, &vec![0.5; len], &QOpts { count: 3, search_k: None, over: None }, None);
        baddim.push(match r {
            Err(e) => json!({"len": len as i64, "res": e}),
            Ok(_) => json!({"len": len as i64, "res": {"c":"Ok"}}),
        });
        // the same call with an empty candidate filter: the length is checked before anything else
        let empty = RoaringBitmap::new();
        let r = run_query(rtxn, db, idx, metric, None, &vec![0.5; len], &QOpts { count: 3, search_k: Some(7), over: None }, Some(&empty));
        baddim.push(match r {
            Err(e) => json!({"len": len as i64, "res": e}),
            Ok(_) => json!({"len": len as i64, "res": {"c":"Ok"}}),
        });
    }

    // C04: self-lookup with the smallest budget
    let mut selfl = Vec::new();
    for (id, v) in &stored {
        let o = QOpts { count: n, search_k: Some(1), over: Some(1) };
        let r = run_query(rtxn, db, idx, metric, Some(*id), v, &o, None);
        let found = match &r {
            Ok(Some(l)) => l.iter().any(|(i, _)| i == id),
            _ => false,
        };
        if std::env::var("VERIF_DEBUG").is_ok() {
            eprintln!("self-lookup id={id} found={found} res={r:?}");
        }
        selfl.push(json!([ctx.rank(*id), found]));
    }

    json!({"open":"Ok","n": n as i64, "ntrees": ntrees as i64, "dov": dov as i64, "dim": dim as i64,
        "queries": qout, "unknown": unknown, "baddim": baddim, "self": selfl, "n_results": n_results, "sides": false})
}

fn ctx_disjoint(all: &[u32]) -> RoaringBitmap {
    // three ids that are not stored
    let mut b = RoaringBitmap::new();
    let mut x = 7u32;
    while b.len() < 3 {
        if !all.contains(&x) {
            b.insert(x);
        }
        x = x.wrapping_mul(2654435761).wrapping_add(12345);
    }
    b
}

/// For every split node: the priority ranks of its left and right child for this query, as the reader
/// computes them: pq_distance(parent, margin, side) = min(parent, -margin | margin), with the margin taken
/// from arroy's own `margin_no_header` (zeroed normals give 0, see the reader). Ranks are dense over the
/// values that occur (larger = popped earlier); NaN margins leave the parent's priority (rank = infinity).
/// This is INPUT to the specified traversal (Search.tla, Visit), not an oracle.
fn split_priorities(_ctx: &mut Ctx, ir: &decode::IndexRaw, metric: Metric, qv: &[f32]) -> Value {
    use arroy::internals::UnalignedVector;
    use arroy::Distance;
    let mut margins: Vec<(u32, f32)> = Vec::new();
    for (nid, n) in &ir.nodes {
        if let decode::TreeNode::Split { normal, .. } = n {
            let m: f32 = if decode::normal_is_zero(metric, normal) {
                0.0
            } else {
                crate::with_metric!(metric, D, {
                    let nv = UnalignedVector::<<D as Distance>::VectorCodec>::from_bytes(normal);
                    let q = UnalignedVector::<<D as Distance>::VectorCodec>::from_slice(qv);
                    match nv {
                        Ok(nv) if nv.len() == q.len() => D::margin_no_header(&nv, &q),
                        _ => f32::NAN,
                    }
                })
            };
            margins.push((*nid, m));
        }
    }
    let mut vals: Vec<f32> = margins.iter().flat_map(|(_, m)| [*m, -*m]).filter(|x| !x.is_nan()).map(|x| if x == 0.0 { 0.0 } else { x }).collect();
    vals.sort_by(|a, b| a.partial_cmp(b).unwrap());
    vals.dedup();
    let rank = |x: f32| -> i64 {
        if x.is_nan() || x == f32::INFINITY {
            1_000_000
        } else {
            let x = if x == 0.0 { 0.0 } else { x };
            vals.iter().position(|v| *v == x).map(|p| p as i64 + 1).unwrap_or(1_000_000)
        }
    };
    json!(margins.iter().map(|(nid, m)| json!([*nid as i64, rank(-*m), rank(*m)])).collect::<Vec<_>>())
}
