//! C08: one writer thread and several reader threads on the same environment.
//! Events of all threads are stamped by one global atomic counter (a logical clock: if an event
//! completed before another began, its stamp is smaller) - never by wall-clock time.
//! The writer commits versions 1..V (each version overwrites a sentinel item whose first
//! component is the version number) and sometimes aborts a transaction that wrote a negative
//! sentinel. Readers open a snapshot at random moments, hold it across later commits and log
//! the full projection of what they see, several times.

use std::collections::BTreeMap;
use std::sync::atomic::{AtomicBool, AtomicI64, Ordering};
use std::sync::{Arc, Mutex};

use heed::types::Bytes;
use rand::rngs::StdRng;
use rand::{Rng, SeedableRng};
use serde_json::{json, Value};

use crate::decode::{self, IndexRaw};
use crate::exec::{do_build, dump, open_env, project_index, work_tmp, Ctx, RawDb};
use crate::gen::{gen_vector, profile};
use crate::hist::{unbits, BuildOpts, History, IndexDecl, Op};
use crate::metric::{Metric, ALL_METRICS};
use crate::search;
use crate::with_metric;

/// the item that carries the version number: the largest id there is (range ends are where scans go wrong)
pub const SENTINEL: u32 = u32::MAX;

fn project_all(ctx: &mut Ctx, d: &decode::RawDump, idx: u16, metric: Metric, dim: usize) -> Value {
    let dec = decode::decode_dump(d, &|_| Some(metric));
    let empty = IndexRaw::default();
    project_index(ctx, dec.get(&idx).unwrap_or(&empty), metric, dim, false)
}

fn sentinel_version(d: &decode::RawDump, idx: u16, metric: Metric) -> i64 {
    let dec = decode::decode_dump(d, &|_| Some(metric));
    match dec.get(&idx).and_then(|ir| ir.leaves.get(&SENTINEL)) {
        Some(leaf) if leaf.vector.len() >= 4 => f32::from_ne_bytes(leaf.vector[0..4].try_into().unwrap()) as i64,
        _ => 0,
    }
}

/// The writer thread: ONE `Writer` value for the whole run, across commits and aborts.
#[allow(clippy::too_many_arguments)]
fn writer_loop<D: arroy::Distance>(
    env: &heed::Env,
    db: RawDb,
    idx: u16,
    metric: Metric,
    dim: usize,
    seed: u64,
    hno: usize,
    ops_plan: Vec<(bool, Vec<Op>, BuildOpts)>,
    clock: &AtomicI64,
    events: &Mutex<Vec<(i64, Value)>>,
    ctx: &Mutex<Ctx>,
) {
    let stamp = |clock: &AtomicI64| clock.fetch_add(1, Ordering::SeqCst);
    let adb: arroy::Database<D> = db.remap_types();
    let wr = arroy::Writer::<D>::new(adb, idx, dim);
    let mut version = 0i64;
    let mut wrng = StdRng::seed_from_u64(seed ^ 0x5555);
    for (abort, ops, o) in ops_plan {
        let mut w = env.write_txn().unwrap();
        let marker = if abort { -(version + 1) } else { version + 1 };
        let mut sv = vec![0f32; dim];
        sv[0] = marker as f32;
        let mut all_ops = ops.clone();
        all_ops.push(Op::Add { idx, id: SENTINEL, v: crate::hist::bits(&sv) });
        for op in &all_ops {
            match op {
                Op::Add { id, v, .. } => wr.add_item(&mut w, *id, &unbits(v)).unwrap(),
                Op::Del { id, .. } => {
                    wr.del_item(&mut w, *id).unwrap();
                }
                _ => {}
            }
            if wrng.gen_bool(0.3) {
                std::thread::sleep(std::time::Duration::from_micros(wrng.gen_range(0..300)));
            }
        }
        let res = std::panic::catch_unwind(std::panic::AssertUnwindSafe(|| {
            let mut rng = StdRng::seed_from_u64(o.seed);
            let mut b = wr.builder(&mut rng);
            if let Some(n) = o.n_trees {
                b.n_trees(n);
            }
            if let Some(n) = o.split_after {
                b.split_after(n);
            }
            b.build(&mut w)
        }));
        let res = match res {
            Ok(Ok(())) => json!({"c":"Ok"}),
            Ok(Err(e)) => crate::exec::err_class(&e),
            Err(p) => json!({"c":"Panic","msg":crate::exec::panic_msg(p)}),
        };
        if res["c"] != "Ok" {
            let s = stamp(clock);
            events.lock().unwrap().push((s, json!({"ev":"W.BuildFailed","h":hno as i64,"seq":s,"res":res})));
            w.abort();
            continue;
        }
        if abort {
            w.abort();
            let s = stamp(clock);
            events.lock().unwrap().push((s, json!({"ev":"W.Abort","h":hno as i64,"seq":s,"marker":marker})));
        } else {
            version += 1;
            let d = dump(db, &w);
            let st = project_all(&mut ctx.lock().unwrap(), &d, idx, metric, dim);
            let s = stamp(clock);
            events.lock().unwrap().push((s, json!({"ev":"W.CommitCall","h":hno as i64,"seq":s,"v":version,"st":st})));
            w.commit().unwrap();
            let s = stamp(clock);
            events.lock().unwrap().push((s, json!({"ev":"W.CommitReturn","h":hno as i64,"seq":s,"v":version})));
        }
        std::thread::sleep(std::time::Duration::from_micros(wrng.gen_range(0..1500)));
    }
}

/// Synchronous variant (one history in three): ONE long-lived reader thread looks at the database only when the
/// writer thread tells it to, every 1..5 commits, and the writer waits for it. Every version has the same size
/// (one item replaced by another, same tree count), so LMDB recycles its pages with every entry at the same
/// place; and since the reader thread never runs a build, whatever the library remembers per thread, per page
/// or per transaction id across read transactions is stale there although it looks valid.
/// Same event vocabulary as `run`.
pub fn run_pingpong(seed: u64, hno: usize, n_rounds: usize) -> Vec<Value> {
    let mut rng = StdRng::seed_from_u64(seed);
    let p = profile("forest");
    let metric = [Metric::Euclidean, Metric::Manhattan, Metric::Cosine, Metric::DotProduct][rng.gen_range(0..4)];
    let dim = *[2usize, 3].iter().nth(rng.gen_range(0..2)).unwrap();
    let idx: u16 = *[0u16, 7, 65535].iter().nth(rng.gen_range(0..3)).unwrap();
    let dir = tempfile::tempdir_in(work_tmp()).unwrap();
    let env = open_env(dir.path(), 256 * 1024 * 1024);
    let db: RawDb = {
        let mut w = env.write_txn().unwrap();
        let db = env.create_database::<Bytes, Bytes>(&mut w, None).unwrap();
        w.commit().unwrap();
        db
    };
    let universe = 90u32;
    let ids: Vec<u32> = (0..universe).chain([SENTINEL]).collect();
    let fake = History {
        indexes: vec![IndexDecl { idx, metric, dim }],
        ops: ids.iter().map(|id| Op::Del { idx, id: *id }).collect(),
        map_size: 0,
        label: String::new(),
        faults: vec![],
        max_polls: 0,
        sides: false,
    };
    let clock = AtomicI64::new(1);
    let events: Mutex<Vec<(i64, Value)>> = Mutex::new(Vec::new());
    let ctx = Mutex::new(Ctx::new(&fake, &[]));
    let stamp = |clock: &AtomicI64| clock.fetch_add(1, Ordering::SeqCst);
    let (to_reader, from_writer) = std::sync::mpsc::channel::<()>();
    let (to_writer, from_reader) = std::sync::mpsc::channel::<()>();
    let n_items = rng.gen_range(12..=20u32);
    let n_trees = rng.gen_range(1..=3usize);
    let rseed: u64 = rng.gen();
    let lifo = rng.gen_bool(0.7);

    std::thread::scope(|sc| {
        let (clock, events, ctx, env2) = (&clock, &events, &ctx, env.clone());
        sc.spawn(move || {
            let mut rrng = StdRng::seed_from_u64(rseed);
            for () in from_writer {
                let s = stamp(clock);
                events.lock().unwrap().push((s, json!({"ev":"R.BeginCall","h":hno as i64,"seq":s,"r":1})));
                let rtxn = env2.read_txn().unwrap();
                let s = stamp(clock);
                events.lock().unwrap().push((s, json!({"ev":"R.BeginReturn","h":hno as i64,"seq":s,"r":1})));
                let d = dump(db, &rtxn);
                let v = sentinel_version(&d, idx, metric);
                let st = project_all(&mut ctx.lock().unwrap(), &d, idx, metric, dim);
                let open = with_metric!(metric, D, {
                    let adb: arroy::Database<D> = db.remap_types();
                    match arroy::Reader::<D>::open(&rtxn, idx, adb) {
                        Ok(_) => "Ok".to_string(),
                        Err(e) => crate::exec::err_class(&e)["c"].as_str().unwrap().to_string(),
                    }
                });
                let q = if v != 0 { search::search_event(&mut ctx.lock().unwrap(), &rtxn, db, idx, metric, dim, rrng.gen()) } else { json!({"open":"none"}) };
                let obs = crate::exec::observe(&mut ctx.lock().unwrap(), &rtxn, db, idx, metric, dim);
                let s = stamp(clock);
                events.lock().unwrap().push((s, json!({"ev":"R.Observe","h":hno as i64,"seq":s,"r":1,"v":v,"st":st,"open":open,"q":q,"obs":obs})));
                drop(rtxn);
                let s = stamp(clock);
                events.lock().unwrap().push((s, json!({"ev":"R.End","h":hno as i64,"seq":s,"r":1})));
                if to_writer.send(()).is_err() {
                    break;
                }
            }
        });
        // ------------------------------------------------------------ the writer, on this thread
        let pool = rayon::ThreadPoolBuilder::new().num_threads(1).build().unwrap();
        let (env, p, rng) = (&env, &p, &mut rng);
        pool.install(move || {
            let mut rng = rng;
            with_metric!(metric, D, {
                let adb: arroy::Database<D> = db.remap_types();
                let wr = arroy::Writer::<D>::new(adb, idx, dim);
                let mut version = 0i64;
                let mut present: Vec<u32> = Vec::new();
                let mut next = 0u32;
                let mut commit_version = |first: bool, rng: &mut StdRng, present: &mut Vec<u32>, next: &mut u32, version: &mut i64| {
                    let mut w = env.write_txn().unwrap();
                    if first {
                        for _ in 0..n_items {
                            wr.add_item(&mut w, *next, &unbits(&gen_vector(rng, dim, p, false))).unwrap();
                            present.push(*next);
                            *next += 1;
                        }
                    } else {
                        // mostly the item added last: LMDB then keeps every other entry of the page where it was
                        let gone = if lifo { present.pop().unwrap() } else { present.remove(rng.gen_range(0..present.len())) };
                        wr.del_item(&mut w, gone).unwrap();
                        wr.add_item(&mut w, *next % universe, &unbits(&gen_vector(rng, dim, p, false))).unwrap();
                        present.push(*next % universe);
                        *next += 1;
                    }
                    *version += 1;
                    let mut sv = vec![0f32; dim];
                    sv[0] = *version as f32;
                    wr.add_item(&mut w, SENTINEL, &sv).unwrap();
                    let mut brng = StdRng::seed_from_u64(rng.gen());
                    wr.builder(&mut brng).n_trees(n_trees).build(&mut w).unwrap();
                    let d = dump(db, &w);
                    let st = project_all(&mut ctx.lock().unwrap(), &d, idx, metric, dim);
                    let s = stamp(clock);
                    events.lock().unwrap().push((s, json!({"ev":"W.CommitCall","h":hno as i64,"seq":s,"v":*version,"st":st})));
                    w.commit().unwrap();
                    let s = stamp(clock);
                    events.lock().unwrap().push((s, json!({"ev":"W.CommitReturn","h":hno as i64,"seq":s,"v":*version})));
                };
                commit_version(true, &mut *rng, &mut present, &mut next, &mut version);
                for round in 0..n_rounds {
                    to_reader.send(()).unwrap();
                    from_reader.recv().unwrap();
                    for _ in 0..(round % 5) + 1 {
                        if next + 1 >= universe + n_items {
                            break;
                        }
                        commit_version(false, &mut *rng, &mut present, &mut next, &mut version);
                    }
                }
                to_reader.send(()).unwrap();
                from_reader.recv().unwrap();
            });
            drop(to_reader);
        });
    });
    let mut evs = events.lock().unwrap().clone();
    evs.sort_by_key(|e| e.0);
    let mut out = vec![json!({"ev":"T.Reset","h":hno as i64,"readers":1,"metric":metric.short(),"dim":dim as i64,
        "idx": idx as i64, "builder_threads": 1, "mode": "pingpong"})];
    out.extend(evs.into_iter().map(|e| e.1));
    out
}

/// one multi-threaded run; returns the merged, stamp-ordered events
pub fn run(seed: u64, hno: usize, n_readers: usize, n_versions: usize, builder_threads: usize) -> Vec<Value> {
    if seed % 3 == 0 {
        return run_pingpong(seed, hno, n_versions * 2);
    }
    let mut rng = StdRng::seed_from_u64(seed);
    let p = profile("forest");
    // f32 metrics only: the sentinel's first component carries the version number
    let metric = [Metric::Euclidean, Metric::Manhattan, Metric::Cosine, Metric::DotProduct][rng.gen_range(0..4)];
    let _ = ALL_METRICS;
    let dim = *[2usize, 3, 5].iter().nth(rng.gen_range(0..3)).unwrap();
    let idx: u16 = *[0u16, 7, 65535].iter().nth(rng.gen_range(0..3)).unwrap();
    let dir = tempfile::tempdir_in(work_tmp()).unwrap();
    let env = open_env(dir.path(), 256 * 1024 * 1024);
    let db: RawDb = {
        let mut w = env.write_txn().unwrap();
        let db = env.create_database::<Bytes, Bytes>(&mut w, None).unwrap();
        w.commit().unwrap();
        db
    };
    // the universe of ids, fixed up front so that every thread ranks ids the same way
    let ids: Vec<u32> = (0..14u32).chain([SENTINEL]).collect();
    let fake = History {
        indexes: vec![IndexDecl { idx, metric, dim }],
        ops: ids.iter().map(|id| Op::Del { idx, id: *id }).collect(),
        map_size: 0,
        label: String::new(),
        faults: vec![],
        max_polls: 0,
        sides: false,
    };
    let clock = Arc::new(AtomicI64::new(1));
    let events: Arc<Mutex<Vec<(i64, Value)>>> = Arc::new(Mutex::new(Vec::new()));
    let stop = Arc::new(AtomicBool::new(false));
    let stamp = |clock: &AtomicI64| clock.fetch_add(1, Ordering::SeqCst);
    // the token table must be shared: tokens are interned bit patterns, and readers and the writer must agree
    let ctx = Arc::new(Mutex::new(Ctx::new(&fake, &[])));

    let ops_plan: Vec<(bool, Vec<Op>, BuildOpts)> = (1..=n_versions)
        .map(|_| {
            let abort = rng.gen_bool(0.25);
            let mut ops = Vec::new();
            for _ in 0..rng.gen_range(1..=6) {
                let id = rng.gen_range(0..14u32);
                if rng.gen_bool(0.3) {
                    ops.push(Op::Del { idx, id });
                } else {
                    ops.push(Op::Add { idx, id, v: gen_vector(&mut rng, dim, &p, false) });
                }
            }
            let o = BuildOpts {
                n_trees: *[None, Some(2), Some(3)].iter().nth(rng.gen_range(0..3)).unwrap(),
                split_after: *[None, Some(1), Some(2)].iter().nth(rng.gen_range(0..3)).unwrap(),
                seed: rng.gen(),
                ..Default::default()
            };
            (abort, ops, o)
        })
        .collect();
    let reader_seeds: Vec<u64> = (0..n_readers).map(|_| rng.gen()).collect();

    std::thread::scope(|sc| {
        // ---------------------------------------------------------------- writer
        {
            let (clock, events, stop, ctx, env) = (clock.clone(), events.clone(), stop.clone(), ctx.clone(), env.clone());
            let ops_plan = ops_plan.clone();
            sc.spawn(move || {
                let pool = rayon::ThreadPoolBuilder::new().num_threads(builder_threads).build().unwrap();
                pool.install(|| {
                    with_metric!(metric, D, {
                        writer_loop::<D>(&env, db, idx, metric, dim, seed, hno, ops_plan, &clock, &events, &ctx);
                    });
                });
                stop.store(true, Ordering::SeqCst);
            });
        }
        // ---------------------------------------------------------------- readers
        for (r, rs) in reader_seeds.iter().enumerate() {
            let (clock, events, stop, ctx, env) = (clock.clone(), events.clone(), stop.clone(), ctx.clone(), env.clone());
            let rs = *rs;
            sc.spawn(move || {
                let mut rrng = StdRng::seed_from_u64(rs);
                let mut rounds = 0;
                loop {
                    let finished = stop.load(Ordering::SeqCst);
                    std::thread::sleep(std::time::Duration::from_micros(rrng.gen_range(0..2500)));
                    let s = stamp(&clock);
                    events.lock().unwrap().push((s, json!({"ev":"R.BeginCall","h":hno as i64,"seq":s,"r":r as i64 + 1})));
                    let rtxn = env.read_txn().unwrap();
                    let s = stamp(&clock);
                    events.lock().unwrap().push((s, json!({"ev":"R.BeginReturn","h":hno as i64,"seq":s,"r":r as i64 + 1})));
                    for _ in 0..rrng.gen_range(1..=3) {
                        std::thread::sleep(std::time::Duration::from_micros(rrng.gen_range(0..3000)));
                        let d = dump(db, &rtxn);
                        let v = sentinel_version(&d, idx, metric);
                        let st = project_all(&mut ctx.lock().unwrap(), &d, idx, metric, dim);
                        let q = if v != 0 {
                            search::search_event(&mut ctx.lock().unwrap(), &rtxn, db, idx, metric, dim, rrng.gen())
                        } else {
                            json!({"open":"none"})
                        };
                        let open = with_metric!(metric, D, {
                            let adb: arroy::Database<D> = db.remap_types();
                            match arroy::Reader::<D>::open(&rtxn, idx, adb) {
                                Ok(_) => "Ok".to_string(),
                                Err(e) => crate::exec::err_class(&e)["c"].as_str().unwrap().to_string(),
                            }
                        });
                        // the API-level bundle (writer and reader calls on THIS thread's read transaction)
                        let obs = crate::exec::observe(&mut ctx.lock().unwrap(), &rtxn, db, idx, metric, dim);
                        let s = stamp(&clock);
                        events.lock().unwrap().push((s, json!({"ev":"R.Observe","h":hno as i64,"seq":s,"r":r as i64 + 1,"v":v,"st":st,"open":open,"q":q,"obs":obs})));
                    }
                    drop(rtxn);
                    let s = stamp(&clock);
                    events.lock().unwrap().push((s, json!({"ev":"R.End","h":hno as i64,"seq":s,"r":r as i64 + 1})));
                    rounds += 1;
                    if finished || rounds > 60 {
                        break;
                    }
                }
            });
        }
    });
    let mut evs = events.lock().unwrap().clone();
    evs.sort_by_key(|e| e.0);
    let mut out = vec![json!({"ev":"T.Reset","h":hno as i64,"readers":n_readers as i64,"metric":metric.short(),"dim":dim as i64,
        "idx": idx as i64, "builder_threads": builder_threads as i64})];
    out.extend(evs.into_iter().map(|e| e.1));
    let _ = BTreeMap::<u8, u8>::new();
    out
}
