//! C09: a child process runs a deterministic history of several committed versions and is
//! killed with SIGKILL at an enumerated point (n-th poll of the cancellation callback, n-th
//! operation, or a delay inside commit); the parent reopens the environment and records what it
//! finds next to what the child had acknowledged.

use std::io::{BufRead, BufReader, Write};
use std::sync::atomic::{AtomicU64, Ordering};

use heed::types::Bytes;
use rand::rngs::StdRng;
use rand::{Rng, SeedableRng};
use serde_json::{json, Value};

use crate::decode::{self, IndexRaw};
use crate::exec::{dump, open_env, project_index, work_tmp, Ctx, RawDb};
use crate::gen::{gen_vector, profile};
use crate::hist::{bits, unbits, History, IndexDecl, Op};
use crate::metric::Metric;
use crate::search;
use crate::txn::SENTINEL;
use crate::with_metric;

pub struct Plan {
    pub use_tmpdir: bool,
    pub metric: Metric,
    pub dim: usize,
    pub idx: u16,
    /// (operations, n_trees, split_after, build seed, build before committing?)
    pub versions: Vec<(Vec<Op>, Option<usize>, Option<usize>, u64, bool)>,
}

pub fn plan(seed: u64) -> Plan {
    let mut rng = StdRng::seed_from_u64(seed);
    let p = profile("forest");
    let metric = [Metric::Euclidean, Metric::Manhattan, Metric::Cosine, Metric::DotProduct][rng.gen_range(0..4)];
    let dim = [2usize, 3, 5][rng.gen_range(0..3)];
    let idx = [0u16, 9, 65535][rng.gen_range(0..3)];
    let nv = rng.gen_range(3..=5);
    let versions = (0..nv)
        .map(|v| {
            let mut ops = Vec::new();
            let n = if v == 0 { rng.gen_range(5..=10) } else { rng.gen_range(1..=6) };
            for _ in 0..n {
                let id = rng.gen_range(0..14u32);
                if v > 0 && rng.gen_bool(0.3) {
                    ops.push(Op::Del { idx, id });
                } else {
                    ops.push(Op::Add { idx, id, v: gen_vector(&mut rng, dim, &p, false) });
                }
            }
            // some versions are committed without a build (pending updates survive the commit); the last one always builds
            let build = v + 1 == nv || v == 0 || rng.gen_bool(0.65);
            // and some of those touch nothing but the version-carrying item (id u32::MAX): one pending mark, at the very end
            if !build && rng.gen_bool(0.4) {
                ops.clear();
            }
            (ops, [None, Some(2usize), Some(3)][rng.gen_range(0..3)], [None, Some(1usize), Some(2)][rng.gen_range(0..3)], rng.gen(), build)
        })
        .collect();
    Plan { use_tmpdir: seed % 2 == 0, metric, dim, idx, versions }
}

pub enum Kill {
    Never,
    AtPoll(u64),
    AtOp(u64),
    InCommit { version: usize, delay_us: u64 },
}

fn die() -> ! {
    unsafe {
        libc::kill(libc::getpid(), libc::SIGKILL);
    }
    loop {
        std::thread::sleep(std::time::Duration::from_secs(1));
    }
}

/// Runs the plan on `dir`. `on_commit(v, dump-before-commit)` is called for every version (golden run).
/// Returns (total polls, total ops).
pub fn tmp_of(dir: &std::path::Path) -> std::path::PathBuf {
    dir.join("arroy-tmp")
}

pub fn run_plan(p: &Plan, dir: &std::path::Path, kill: &Kill, report: &mut dyn FnMut(&str), on_version: &mut dyn FnMut(usize, &decode::RawDump)) -> (u64, u64) {
    run_plan_from(p, dir, kill, report, on_version, 1)
}

/// versions `first..` of the plan (a resumed process continues after the version it finds)
pub fn run_plan_from(p: &Plan, dir: &std::path::Path, kill: &Kill, report: &mut dyn FnMut(&str), on_version: &mut dyn FnMut(usize, &decode::RawDump), first: usize) -> (u64, u64) {
    if p.use_tmpdir {
        std::fs::create_dir_all(tmp_of(dir)).unwrap();
    }
    let env = open_env(dir, 256 * 1024 * 1024);
    let db: RawDb = {
        let mut w = env.write_txn().unwrap();
        let db = env.create_database::<Bytes, Bytes>(&mut w, None).unwrap();
        w.commit().unwrap();
        db
    };
    let polls = AtomicU64::new(0);
    let mut nops = 0u64;
    // one Writer value for the whole life of the process (what a writer keeps in memory dies with it)
    let mut pool = crate::exec::WriterPool::new(true);
    let kill_poll = match kill {
        Kill::AtPoll(n) => Some(*n),
        _ => None,
    };
    for (vi, (ops, n_trees, split_after, bseed, do_build)) in p.versions.iter().enumerate() {
        let version = vi + 1;
        if version < first {
            continue;
        }
        let mut w = env.write_txn().unwrap();
        let mut sv = vec![0f32; p.dim];
        sv[0] = version as f32;
        let mut all = ops.clone();
        all.push(Op::Add { idx: p.idx, id: SENTINEL, v: bits(&sv) });
        for op in &all {
            if let Kill::AtOp(n) = kill {
                if nops == *n {
                    die();
                }
            }
            nops += 1;
            with_metric!(p.metric, D, {
                pool.with::<D, _>(p.metric, db, p.idx, p.dim, |wr| match op {
                    Op::Add { id, v, .. } => wr.add_item(&mut w, *id, &unbits(v)).unwrap(),
                    Op::Del { id, .. } => {
                        wr.del_item(&mut w, *id).unwrap();
                    }
                    _ => {}
                });
            });
        }
        if let Kill::AtOp(n) = kill {
            if nops == *n {
                die();
            }
        }
        nops += 1;
        if *do_build {
        with_metric!(p.metric, D, {
            pool.with::<D, _>(p.metric, db, p.idx, p.dim, |wr| {
            if p.use_tmpdir {
                wr.set_tmpdir(tmp_of(dir));
            }
            let mut rng = StdRng::seed_from_u64(*bseed);
            let mut b = wr.builder(&mut rng);
            if let Some(n) = n_trees {
                b.n_trees(*n);
            }
            if let Some(n) = split_after {
                b.split_after(*n);
            }
            b.cancel(|| {
                let n = polls.fetch_add(1, Ordering::SeqCst);
                if Some(n) == kill_poll {
                    die();
                }
                false
            });
            b.progress(|_| {});
            b.build(&mut w).unwrap();
            });
        });
        }
        on_version(version, &dump(db, &w));
        report(&format!("START {version}"));
        if let Kill::InCommit { version: kv, delay_us } = kill {
            if *kv == version {
                let d = *delay_us;
                std::thread::spawn(move || {
                    std::thread::sleep(std::time::Duration::from_micros(d));
                    die();
                });
            }
        }
        w.commit().unwrap();
        report(&format!("ACK {version}"));
    }
    (polls.load(Ordering::SeqCst), nops)
}

pub fn child(args: &[String]) {
    let get = |name: &str| args.iter().position(|a| a == name).and_then(|p| args.get(p + 1)).cloned();
    let dir = get("--dir").unwrap();
    let seed: u64 = get("--seed").unwrap().parse().unwrap();
    let mode = get("--mode").unwrap();
    let at: u64 = get("--at").unwrap().parse().unwrap();
    let kill = match mode.as_str() {
        "poll" => Kill::AtPoll(at),
        "op" => Kill::AtOp(at),
        "commit" => Kill::InCommit { version: (at / 1_000_000) as usize, delay_us: at % 1_000_000 },
        _ => Kill::Never,
    };
    // one builder thread: node ids must be the same in the golden run and in every child
    rayon::ThreadPoolBuilder::new().num_threads(1).build_global().ok();
    let p = plan(seed);
    let out = std::io::stdout();
    let first = if mode == "resume" { at as usize } else { 1 };
    run_plan_from(&p, std::path::Path::new(&dir), &kill, &mut |s| {
        let mut o = out.lock();
        writeln!(o, "{s}").unwrap();
        o.flush().unwrap();
    }, &mut |_, _| {}, first);
}

pub fn parent(seed: u64, hno: usize, thorough: bool) -> (Vec<Value>, usize) {
    let p = plan(seed);
    let fake = History {
        indexes: vec![IndexDecl { idx: p.idx, metric: p.metric, dim: p.dim }],
        ops: (0..14u32).chain([SENTINEL]).map(|id| Op::Del { idx: p.idx, id }).collect(),
        map_size: 0,
        label: String::new(),
        faults: vec![],
        max_polls: 0,
        sides: false,
    };
    let mut ctx = Ctx::new(&fake, &[]);
    let mut out = vec![json!({"ev":"C.Reset","h":hno as i64,"readers":0,"metric":p.metric.short(),"dim":p.dim as i64,"idx":p.idx as i64,"versions":p.versions.len() as i64})];
    let proj = |ctx: &mut Ctx, d: &decode::RawDump| -> Value {
        let dec = decode::decode_dump(d, &|_| Some(p.metric));
        let empty = IndexRaw::default();
        project_index(ctx, dec.get(&p.idx).unwrap_or(&empty), p.metric, p.dim, false)
    };
    // golden run
    let gdir = tempfile::tempdir_in(work_tmp()).unwrap();
    let mut versions: Vec<(usize, decode::RawDump)> = Vec::new();
    let pool1 = rayon::ThreadPoolBuilder::new().num_threads(1).build().unwrap();
    let (polls, nops) = pool1.install(|| run_plan(&p, gdir.path(), &Kill::Never, &mut |_| {}, &mut |v, d| versions.push((v, d.clone()))));
    for (v, d) in &versions {
        let st = proj(&mut ctx, d);
        out.push(json!({"ev":"C.Version","h":hno as i64,"seq":0,"v":*v as i64,"st":st,"built": p.versions[*v - 1].4}));
    }
    drop(gdir);
    // kill points
    let mut points: Vec<(String, u64)> = Vec::new();
    let stride = if thorough { 1 } else { (polls / 28).max(1) };
    let mut n = 0;
    while n < polls.min(if thorough { 1500 } else { u64::MAX }) {
        points.push(("poll".into(), n));
        n += stride;
    }
    points.push(("poll".into(), polls.saturating_sub(1)));
    let ostride = if thorough { 1 } else { (nops / 12).max(1) };
    let mut n = 0;
    while n <= nops {
        points.push(("op".into(), n));
        n += ostride;
    }
    let delays: &[u64] = if thorough { &[0, 20, 50, 100, 200, 400, 800, 1500, 3000, 6000] } else { &[0, 60, 300, 2000] };
    for v in 1..=p.versions.len() as u64 {
        for d in delays {
            points.push(("commit".into(), v * 1_000_000 + d));
        }
    }
    let exe = std::env::current_exe().unwrap();
    let npoints = points.len();
    for (mode, at) in points {
        let dir = tempfile::tempdir_in(work_tmp()).unwrap();
        let mut ch = std::process::Command::new(&exe)
            .args(["crash-child", "--dir", dir.path().to_str().unwrap(), "--seed", &seed.to_string(), "--mode", &mode, "--at", &at.to_string()])
            .stdout(std::process::Stdio::piped())
            .stderr(std::process::Stdio::null())
            .spawn()
            .unwrap();
        let mut acked = 0i64;
        let mut started = 0i64;
        for line in BufReader::new(ch.stdout.take().unwrap()).lines() {
            let line = line.unwrap();
            if let Some(v) = line.strip_prefix("ACK ") {
                acked = v.parse().unwrap();
            }
            if let Some(v) = line.strip_prefix("START ") {
                started = v.parse().unwrap();
            }
        }
        let status = ch.wait().unwrap();
        let killed = !status.success();
        // reopen
        let env = open_env(dir.path(), 256 * 1024 * 1024);
        let mut w = env.write_txn().unwrap();
        let db: RawDb = env.create_database::<Bytes, Bytes>(&mut w, None).unwrap();
        w.commit().unwrap();
        let rtxn = env.read_txn().unwrap();
        let d = dump(db, &rtxn);
        let st = proj(&mut ctx, &d);
        let dec = decode::decode_dump(&d, &|_| Some(p.metric));
        let v = match dec.get(&p.idx).and_then(|ir| ir.leaves.get(&SENTINEL)) {
            Some(leaf) if leaf.vector.len() >= 4 => f32::from_ne_bytes(leaf.vector[0..4].try_into().unwrap()) as i64,
            _ => 0,
        };
        let foreign = d.iter().filter(|(k, _)| k.len() < 2 || u16::from_be_bytes([k[0], k[1]]) != p.idx).count() as i64;
        let q = if v > 0 { search::search_event(&mut ctx, &rtxn, db, p.idx, p.metric, p.dim, at ^ seed) } else { json!({"open":"none"}) };
        let open = with_metric!(p.metric, D, {
            let adb: arroy::Database<D> = db.remap_types();
            match arroy::Reader::<D>::open(&rtxn, p.idx, adb) {
                Ok(_) => "Ok".to_string(),
                Err(e) => crate::exec::err_class(&e)["c"].as_str().unwrap().to_string(),
            }
        });
        let tmp_left = std::fs::read_dir(tmp_of(dir.path())).map(|d| d.count() as i64).unwrap_or(0);
        out.push(json!({"ev":"C.Recovered","h":hno as i64,"seq": at.min(i32::MAX as u64) as i64,"mode":mode,"killed":killed,
            "acked":acked,"inflight": if started > acked { started } else { -1 },"v":v,"st":st,"open":open,"q":q,"foreign":foreign,
            "tmp_left": tmp_left}));
        // a new process carries on from the recovered version: it must end where the golden run ended
        drop(rtxn);
        drop(env);
        let nv = p.versions.len() as i64;
        if killed && v >= 0 && v < nv {
            let st2 = std::process::Command::new(&exe)
                .args(["crash-child", "--dir", dir.path().to_str().unwrap(), "--seed", &seed.to_string(), "--mode", "resume", "--at", &(v + 1).to_string()])
                .stdout(std::process::Stdio::null())
                .stderr(std::process::Stdio::null())
                .status()
                .unwrap();
            let env = open_env(dir.path(), 256 * 1024 * 1024);
            let mut w = env.write_txn().unwrap();
            let db: RawDb = env.create_database::<Bytes, Bytes>(&mut w, None).unwrap();
            w.commit().unwrap();
            let rtxn = env.read_txn().unwrap();
            let d = dump(db, &rtxn);
            let st = proj(&mut ctx, &d);
            let dec = decode::decode_dump(&d, &|_| Some(p.metric));
            let v2 = match dec.get(&p.idx).and_then(|ir| ir.leaves.get(&SENTINEL)) {
                Some(leaf) if leaf.vector.len() >= 4 => f32::from_ne_bytes(leaf.vector[0..4].try_into().unwrap()) as i64,
                _ => 0,
            };
            let q = if v2 > 0 { search::search_event(&mut ctx, &rtxn, db, p.idx, p.metric, p.dim, at ^ seed ^ 9) } else { json!({"open":"none"}) };
            let open = with_metric!(p.metric, D, {
                let adb: arroy::Database<D> = db.remap_types();
                match arroy::Reader::<D>::open(&rtxn, p.idx, adb) {
                    Ok(_) => "Ok".to_string(),
                    Err(e) => crate::exec::err_class(&e)["c"].as_str().unwrap().to_string(),
                }
            });
            out.push(json!({"ev":"C.Resumed","h":hno as i64,"seq": at.min(i32::MAX as u64) as i64,"from": v + 1,"exit_ok": st2.success(),
                "v": v2, "expect": nv, "st": st, "open": open, "q": q, "foreign": 0}));
        }
    }
    (out, npoints)
}
