//! Conformance of the write-back buffer of a build (`TmpNodes` / `TmpNodesReader`, exported by
//! hook H5) with spec/TmpNodesOps.tla: operation sequences executed on the real type, with the
//! outputs of `to_delete()` and `to_insert()` logged, one ndjson line per buffer.
//! The harness is compiled with debug assertions, so the two `debug_assert!` of the type are live
//! and a sequence that breaks their discipline is expected to panic (and is logged as such).

use arroy::internals::TmpNodes;
use heed::types::Bytes;
use rand::rngs::StdRng;
use rand::{Rng, SeedableRng};
use serde_json::{json, Value};

const IDS: [u32; 5] = [0, 1, 2, 7, 2_147_483_646];
const DATA: [&str; 3] = ["x", "y", "zz"];

#[derive(Clone, Debug)]
pub enum TOp {
    Put(u32, &'static str),
    Remove(u32),
    Remap(u32, u32),
}

fn op_json(o: &TOp) -> Value {
    match o {
        TOp::Put(id, d) => json!({"op":"put","id":*id as i64,"d":d}),
        TOp::Remove(id) => json!({"op":"remove","id":*id as i64}),
        TOp::Remap(a, n) => json!({"op":"remap","id":*a as i64,"to":*n as i64}),
    }
}

/// runs one sequence on the real type, in the given temp directory or in the default one
pub fn run_ops(ops: &[TOp], n: usize, in_dir: Option<&std::path::Path>) -> Value {
    let res = std::panic::catch_unwind(std::panic::AssertUnwindSafe(|| {
        let mut t: TmpNodes<Bytes> = match in_dir {
            Some(p) => TmpNodes::new_in(p).unwrap(),
            None => TmpNodes::new().unwrap(),
        };
        for o in ops {
            match o {
                TOp::Put(id, d) => t.put(*id, d.as_bytes()).unwrap(),
                TOp::Remove(id) => t.remove(*id),
                TOp::Remap(a, b) => t.remap(*a, *b),
            }
        }
        let r = t.into_bytes_reader().unwrap();
        let del: Vec<i64> = r.to_delete().map(|i| i as i64).collect();
        let ins: Vec<Value> = r.to_insert().map(|(i, b)| json!([i as i64, String::from_utf8_lossy(b).to_string()])).collect();
        (del, ins)
    }));
    let ops_j: Vec<Value> = ops.iter().map(op_json).collect();
    match res {
        Ok((del, ins)) => json!({"ev":"Tmp","n":n as i64,"ops":ops_j,"res":"Ok","del":del,"ins":ins}),
        Err(_) => json!({"ev":"Tmp","n":n as i64,"ops":ops_j,"res":"Panic","del":[],"ins":[]}),
    }
}

fn all_ops(ids: &[u32], data: &[&'static str]) -> Vec<TOp> {
    let mut v = Vec::new();
    for &i in ids {
        for &d in data {
            v.push(TOp::Put(i, d));
        }
        v.push(TOp::Remove(i));
        for &j in ids {
            v.push(TOp::Remap(i, j));
        }
    }
    v
}

/// every sequence up to `depth` over a small alphabet, then seeded random longer ones
pub fn cases(seed: u64, thorough: bool, lines: &mut Vec<Value>) -> (usize, usize) {
    let quiet = std::panic::take_hook();
    std::panic::set_hook(Box::new(|_| {}));
    let alphabet = all_ops(&[1, 2], &["x", "y"]);
    let depth = if thorough { 4 } else { 3 };
    let mut exhaustive = 0;
    let mut stack: Vec<Vec<TOp>> = vec![vec![]];
    while let Some(s) = stack.pop() {
        lines.push(run_ops(&s, lines.len(), None));
        exhaustive += 1;
        if s.len() < depth {
            for o in &alphabet {
                let mut t = s.clone();
                t.push(o.clone());
                stack.push(t);
            }
        }
    }
    let mut rng = StdRng::seed_from_u64(seed ^ 0x746d70);
    let dir = tempfile::tempdir_in(crate::exec::work_tmp()).unwrap();
    let n_random = if thorough { 20_000 } else { 2_000 };
    for k in 0..n_random {
        let len = rng.gen_range(1..=12);
        // mostly disciplined sequences (the ones the writer produces), some arbitrary ones
        let disciplined = rng.gen_bool(0.7);
        let mut removed: Vec<u32> = Vec::new();
        let mut ops = Vec::new();
        for _ in 0..len {
            let id = IDS[rng.gen_range(0..IDS.len())];
            match rng.gen_range(0..10) {
                0..=5 => {
                    if disciplined && removed.contains(&id) {
                        continue;
                    }
                    ops.push(TOp::Put(id, DATA[rng.gen_range(0..DATA.len())]));
                }
                6..=8 => {
                    if disciplined && removed.contains(&id) {
                        continue;
                    }
                    removed.push(id);
                    ops.push(TOp::Remove(id));
                }
                _ => ops.push(TOp::Remap(id, IDS[rng.gen_range(0..IDS.len())])),
            }
        }
        lines.push(run_ops(&ops, lines.len(), if k % 2 == 0 { Some(dir.path()) } else { None }));
    }
    std::panic::set_hook(quiet);
    (exhaustive, n_random)
}
