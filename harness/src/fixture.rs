//! C16: golden key/value fixtures written by the reference tree, loaded byte for byte into a
//! fresh environment and exercised through the public API of the current code.

use std::collections::BTreeMap;

use heed::types::Bytes;
use rand::rngs::StdRng;
use rand::{Rng, SeedableRng};
use serde_json::{json, Value};

use crate::decode::{self, IndexRaw};
use crate::exec::{self, dump, observe, open_env, project_index, work_tmp, Ctx, RawDb};
use crate::gen::{gen_vector, profile};
use crate::hist::{bits, unbits, BuildOpts, History, IndexDecl, Op};
use crate::metric::{Metric, ALL_METRICS};
use crate::search::{self, QOpts};
use crate::with_metric;

fn hex(b: &[u8]) -> String {
    b.iter().map(|x| format!("{x:02x}")).collect()
}
fn unhex(s: &str) -> Vec<u8> {
    (0..s.len()).step_by(2).map(|i| u8::from_str_radix(&s[i..i + 2], 16).unwrap()).collect()
}

const IDXS: [u16; 3] = [0, 7, 65535];

/// the history a fixture is generated from (deterministic per metric)
fn fixture_history(metric: Metric) -> History {
    let mut rng = StdRng::seed_from_u64(0xF1C5 + metric as u64);
    let p = profile("forest");
    let dim = if metric.is_bq() { 70 } else { 3 };
    let mut ops = Vec::new();
    // index 0: deep forest (capacity 2, 2 trees), ids at both ends of u32
    let ids0: Vec<u32> = (0..22u32).chain([255, 256, 65536, u32::MAX - 1, u32::MAX]).collect();
    for id in &ids0 {
        ops.push(Op::Add { idx: 0, id: *id, v: gen_vector(&mut rng, dim, &p, false) });
    }
    ops.push(Op::Build { idx: 0, o: BuildOpts { n_trees: Some(2), split_after: Some(2), seed: 11, ..Default::default() } });
    // index 7: built, then pending updates (must demand a build)
    for id in 0..9u32 {
        ops.push(Op::Add { idx: 7, id: id * 3, v: gen_vector(&mut rng, dim, &p, false) });
    }
    ops.push(Op::Build { idx: 7, o: BuildOpts { n_trees: Some(3), split_after: Some(1), seed: 12, ..Default::default() } });
    // index 65535: fits in one bucket
    for id in [5u32, 6, 4_000_000_000] {
        ops.push(Op::Add { idx: 65535, id, v: gen_vector(&mut rng, dim, &p, false) });
    }
    ops.push(Op::Build { idx: 65535, o: BuildOpts { seed: 13, ..Default::default() } });
    // incremental round on index 0 so that recycled ids and rewritten parents are present
    ops.push(Op::Del { idx: 0, id: 3 });
    ops.push(Op::Del { idx: 0, id: 256 });
    ops.push(Op::Add { idx: 0, id: 77, v: gen_vector(&mut rng, dim, &p, false) });
    ops.push(Op::Add { idx: 0, id: 5, v: gen_vector(&mut rng, dim, &p, false) });
    ops.push(Op::Build { idx: 0, o: BuildOpts { n_trees: Some(2), split_after: Some(2), seed: 14, ..Default::default() } });
    ops.push(Op::Commit);
    ops.push(Op::Add { idx: 7, id: 100, v: gen_vector(&mut rng, dim, &p, false) });
    ops.push(Op::Del { idx: 7, id: 6 });
    ops.push(Op::Commit);
    History {
        indexes: IDXS.iter().map(|i| IndexDecl { idx: *i, metric, dim }).collect(),
        ops,
        map_size: 64 * 1024 * 1024,
        label: format!("fixture:{}", metric.short()),
        faults: vec![],
        max_polls: 1_000_000,
        sides: false,
    }
}

fn queries_for(metric: Metric, dim: usize) -> Vec<(u16, Vec<f32>, usize)> {
    let mut rng = StdRng::seed_from_u64(0xABCD + metric as u64);
    let mut q = Vec::new();
    for idx in [0u16, 65535] {
        for count in [1usize, 4, 100] {
            q.push((idx, (0..dim).map(|_| rng.gen_range(-1.0f32..1.0)).collect(), count));
        }
    }
    q
}

fn run_queries(rtxn: &heed::RoTxn, db: RawDb, metric: Metric, dim: usize) -> Vec<Value> {
    queries_for(metric, dim)
        .into_iter()
        .map(|(idx, qv, count)| {
            let r = search::run_query(rtxn, db, idx, metric, None, &qv, &QOpts { count, search_k: Some(usize::MAX), over: None }, None);
            let ans: Vec<Value> = match r {
                Ok(Some(v)) => v.iter().map(|(id, d)| json!([*id as u64, d.to_bits()])).collect(),
                _ => vec![json!("error")],
            };
            json!({"idx": idx, "q": bits(&qv), "count": count, "answer": ans})
        })
        .collect()
}

/// writes /verif/fixtures/<metric>.json from the tree the harness is linked against
pub fn generate(outdir: &str) {
    std::fs::create_dir_all(outdir).unwrap();
    for metric in ALL_METRICS {
        let h = fixture_history(metric);
        let dim = h.indexes[0].dim;
        // execute without recording a trace
        let dir = tempfile::tempdir_in(work_tmp()).unwrap();
        let env = open_env(dir.path(), h.map_size);
        let mut w = env.write_txn().unwrap();
        let db: RawDb = env.create_database::<Bytes, Bytes>(&mut w, None).unwrap();
        w.commit().unwrap();
        let mut wtxn = Some(env.write_txn().unwrap());
        let mut model: BTreeMap<u16, BTreeMap<u32, Vec<u32>>> = BTreeMap::new();
        for op in &h.ops {
            if wtxn.is_none() {
                wtxn = Some(env.write_txn().unwrap());
            }
            let w = wtxn.as_mut().unwrap();
            match op {
                Op::Add { idx, id, v } => {
                    with_metric!(metric, D, {
                        let adb: arroy::Database<D> = db.remap_types();
                        arroy::Writer::<D>::new(adb, *idx, dim).add_item(w, *id, &unbits(v)).unwrap();
                    });
                    model.entry(*idx).or_default().insert(*id, bits(&crate::metric::represent(metric, &unbits(v))));
                }
                Op::Del { idx, id } => {
                    with_metric!(metric, D, {
                        let adb: arroy::Database<D> = db.remap_types();
                        arroy::Writer::<D>::new(adb, *idx, dim).del_item(w, *id).unwrap();
                    });
                    model.entry(*idx).or_default().remove(id);
                }
                Op::Build { idx, o } => {
                    let r = exec::do_build(w, db, *idx, metric, dim, o, 1_000_000);
                    assert_eq!(r.res["c"], "Ok", "fixture build failed");
                }
                Op::Commit => wtxn.take().unwrap().commit().unwrap(),
                _ => unreachable!(),
            }
        }
        let rtxn = env.read_txn().unwrap();
        let d = dump(db, &rtxn);
        let answers = run_queries(&rtxn, db, metric, dim);
        let fx = json!({
            "metric": metric.short(), "dim": dim,
            "kv": d.iter().map(|(k, v)| json!([hex(k), hex(v)])).collect::<Vec<_>>(),
            "items": model.iter().map(|(i, m)| json!([*i, m.iter().map(|(id, v)| json!([*id as u64, v])).collect::<Vec<_>>()])).collect::<Vec<_>>(),
            "queries": answers,
        });
        std::fs::write(format!("{outdir}/{}.json", metric.short()), serde_json::to_string(&fx).unwrap()).unwrap();
    }
}

/// loads every fixture, emits a trace (events Reset, Load, then an incremental round)
pub fn check(fixdir: &str, seed: u64, first_no: usize, out: &mut Vec<Value>) -> (usize, Vec<History>) {
    let mut n = 0;
    let mut hs = Vec::new();
    for (k, metric) in ALL_METRICS.iter().enumerate() {
        let metric = *metric;
        let path = format!("{fixdir}/{}.json", metric.short());
        let fx: Value = serde_json::from_str(&std::fs::read_to_string(&path).expect("fixture file")).unwrap();
        let dim = fx["dim"].as_u64().unwrap() as usize;
        let hno = first_no + k;
        // the incremental round that follows the load
        let mut rng = StdRng::seed_from_u64(seed ^ (k as u64) << 8);
        let p = profile("forest");
        let mut ops = Vec::new();
        for _ in 0..rng.gen_range(3..8) {
            let id = *[0u32, 1, 2, 9, 21, 77, 255, u32::MAX, 300, 12].iter().nth(rng.gen_range(0..10)).unwrap();
            if rng.gen_bool(0.4) {
                ops.push(Op::Del { idx: 0, id });
            } else {
                ops.push(Op::Add { idx: 0, id, v: gen_vector(&mut rng, dim, &p, false) });
            }
        }
        ops.push(Op::Build { idx: 0, o: BuildOpts { n_trees: Some(2), split_after: Some(2), seed: rng.gen(), ..Default::default() } });
        ops.push(Op::Search { idx: 0, seed: rng.gen() });
        ops.push(Op::Build { idx: 7, o: BuildOpts { n_trees: Some(3), split_after: Some(1), seed: rng.gen(), ..Default::default() } });
        ops.push(Op::Search { idx: 7, seed: rng.gen() });
        ops.push(Op::Commit);
        let mut h = History {
            indexes: IDXS.iter().map(|i| IndexDecl { idx: *i, metric, dim }).collect(),
            ops,
            map_size: 64 * 1024 * 1024,
            label: format!("fixture:{}", metric.short()),
            faults: vec![],
            max_polls: 1_000_000,
            sides: true,
        };
        // ids of the fixture must be in the universe
        let extra: Vec<u32> = fx["items"].as_array().unwrap().iter().flat_map(|e| e[1].as_array().unwrap().iter().map(|x| x[0].as_u64().unwrap() as u32).collect::<Vec<_>>()).collect();
        let loaded: Vec<(Vec<u8>, Vec<u8>)> = fx["kv"].as_array().unwrap().iter().map(|e| (unhex(e[0].as_str().unwrap()), unhex(e[1].as_str().unwrap()))).collect();
        let mut pre = Vec::new();
        exec::run_history_with(&h, hno, &exec::RunCfg::default(), &mut pre, &extra, &mut |env, db, ctx, evs| {
            // byte-for-byte load
            let mut w = env.write_txn().unwrap();
            for (k, v) in &loaded {
                db.put(&mut w, k, v).unwrap();
            }
            w.commit().unwrap();
            let rtxn = env.read_txn().unwrap();
            let d = dump(db, &rtxn);
            let dec = decode::decode_dump(&d, &|_| Some(metric));
            let empty = IndexRaw::default();
            let all: Vec<Value> = ctx.idxs.clone().iter().map(|i| project_index(ctx, dec.get(i).unwrap_or(&empty), metric, dim, false)).collect();
            let obs: Vec<Value> = ctx.idxs.clone().iter().map(|i| observe(ctx, &rtxn, db, *i, metric, dim)).collect();
            // recorded items: the API must return exactly the recorded bit patterns
            let mut items_ok = true;
            for e in fx["items"].as_array().unwrap() {
                let idx = e[0].as_u64().unwrap() as u16;
                for it in e[1].as_array().unwrap() {
                    let id = it[0].as_u64().unwrap() as u32;
                    let want: Vec<u32> = it[1].as_array().unwrap().iter().map(|x| x.as_u64().unwrap() as u32).collect();
                    let got = with_metric!(metric, D, {
                        let adb: arroy::Database<D> = db.remap_types();
                        std::panic::catch_unwind(std::panic::AssertUnwindSafe(|| arroy::Writer::<D>::new(adb, idx, dim).item_vector(&rtxn, id).ok().flatten())).ok().flatten()
                    });
                    if got.map(|v| bits(&v)) != Some(want) {
                        items_ok = false;
                    }
                }
            }
            // recorded answers: same neighbours, same distances (4 ulp)
            let now = run_queries(&rtxn, db, metric, dim);
            let mut answers_ok = true;
            for (a, b) in now.iter().zip(fx["queries"].as_array().unwrap()) {
                let (x, y) = (a["answer"].as_array().unwrap(), b["answer"].as_array().unwrap());
                if x.len() != y.len() {
                    answers_ok = false;
                    continue;
                }
                for (p, q) in x.iter().zip(y) {
                    if p[0] != q[0] {
                        answers_ok = false;
                    }
                    let (dp, dq) = (f32::from_bits(p[1].as_u64().unwrap_or(0) as u32), f32::from_bits(q[1].as_u64().unwrap_or(1) as u32));
                    if !((dp - dq).abs() <= 4.0 * f32::EPSILON * dq.abs().max(1e-30) || dp.to_bits() == dq.to_bits()) {
                        answers_ok = false;
                    }
                }
            }
            let qs: Vec<Value> = [0u16, 65535].iter().map(|i| json!({"i": ctx.irank(*i), "q": search::search_event(ctx, &rtxn, db, *i, metric, dim, seed ^ 77)})).collect();
            // key bytes of the loaded database, for the spec to re-encode
            let keys: Vec<Value> = d.iter().take(40).map(|(k, _)| {
                let dk = decode::decode_key(k).ok();
                json!({"bytes": k.iter().map(|b| *b as i64).collect::<Vec<_>>(),
                       "index": dk.map(|x| x.index as i64).unwrap_or(-1), "kind": dk.map(|x| x.kind as i64).unwrap_or(-1),
                       "id_hi": dk.map(|x| (x.id >> 16) as i64).unwrap_or(-1), "id_lo": dk.map(|x| (x.id & 0xffff) as i64).unwrap_or(-1)})
            }).collect();
            evs.push(json!({"ev":"Load","h":hno as i64,"k":-1,"all":all,"obs_all":obs,"items_ok":items_ok,"answers_ok":answers_ok,"qs":qs,"keys":keys,
                "foreign": d.iter().filter(|(k, _)| k.len() < 2 || !IDXS.contains(&u16::from_be_bytes([k[0], k[1]]))).count() as i64}));
            d
        });
        out.append(&mut pre);
        h.label = format!("fixture:{}", metric.short());
        hs.push(h);
        n += 1;
    }
    (n, hs)
}
