//! Histories: the inputs of every driver, serialisable so that a violation can be replayed.

use serde::{Deserialize, Serialize};

use crate::metric::Metric;

#[derive(Clone, Debug, Serialize, Deserialize, PartialEq)]
pub struct BuildOpts {
    pub n_trees: Option<usize>,
    pub split_after: Option<usize>,
    pub mem: Option<usize>,
    pub threads: usize,
    pub seed: u64,
    /// the cancellation callback answers true from its n-th call on (0-based); None = never
    pub cancel_at: Option<u64>,
    /// configured temp dir: None = default; Some(path)
    #[serde(default)]
    pub tmpdir: Option<String>,
    /// C10 "retrying without the fault succeeds", literally: the faulty attempt runs in a nested transaction that is
    /// rolled back, the fault is withdrawn and THE SAME builder value builds again in the caller's transaction
    #[serde(default)]
    pub retry_same_builder: bool,
    /// before the transaction of this build starts, the LMDB map is resized to (pages in use + this many) pages
    #[serde(default)]
    pub map_free_pages: Option<usize>,
}

impl Default for BuildOpts {
    fn default() -> Self {
        BuildOpts { n_trees: None, split_after: None, mem: None, threads: 1, seed: 42, cancel_at: None, tmpdir: None, retry_same_builder: false, map_free_pages: None }
    }
}

/// f32 vectors are carried as bit patterns so that NaN payloads and signed zeros survive JSON.
#[derive(Clone, Debug, Serialize, Deserialize, PartialEq)]
pub enum Op {
    Add { idx: u16, id: u32, v: Vec<u32> },
    Append { idx: u16, id: u32, v: Vec<u32> },
    Del { idx: u16, id: u32 },
    /// bulk add in one event (large histories): (id, vector bits)
    AddMany { idx: u16, items: Vec<(u32, Vec<u32>)> },
    DelMany { idx: u16, ids: Vec<u32> },
    Clear { idx: u16 },
    Build { idx: u16, o: BuildOpts },
    ChangeMetric { idx: u16, to: Metric },
    Commit,
    Abort,
    /// emit a search event on the index (only meaningful when it opens)
    Search { idx: u16, seed: u64 },
}

impl Op {
    pub fn name(&self) -> &'static str {
        match self {
            Op::Add { .. } => "Add",
            Op::Append { .. } => "Append",
            Op::Del { .. } => "Del",
            Op::AddMany { .. } => "AddMany",
            Op::DelMany { .. } => "DelMany",
            Op::Clear { .. } => "Clear",
            Op::Build { .. } => "Build",
            Op::ChangeMetric { .. } => "ChangeMetric",
            Op::Search { .. } => "Search",
            Op::Commit => "Commit",
            Op::Abort => "Abort",
        }
    }

    pub fn idx(&self) -> Option<u16> {
        match self {
            Op::Add { idx, .. }
            | Op::Append { idx, .. }
            | Op::Del { idx, .. }
            | Op::AddMany { idx, .. }
            | Op::DelMany { idx, .. }
            | Op::Clear { idx }
            | Op::Build { idx, .. }
            | Op::ChangeMetric { idx, .. }
            | Op::Search { idx, .. } => Some(*idx),
            Op::Commit | Op::Abort => None,
        }
    }
}

#[derive(Clone, Debug, Serialize, Deserialize, PartialEq)]
pub struct IndexDecl {
    pub idx: u16,
    pub metric: Metric,
    pub dim: usize,
}

#[derive(Clone, Debug, Serialize, Deserialize, PartialEq)]
pub struct History {
    pub indexes: Vec<IndexDecl>,
    pub ops: Vec<Op>,
    #[serde(default = "default_map_size")]
    pub map_size: usize,
    /// free-form label of the generator that produced it
    #[serde(default)]
    pub label: String,
    /// environment faults this history is allowed to run into: "mapfull"
    #[serde(default)]
    pub faults: Vec<String>,
    /// poll-count watchdog of builds (a build polling more often is reported as NoProgress)
    #[serde(default = "default_max_polls")]
    pub max_polls: u64,
    /// log margin sides / run per-item observations (switched off for large histories)
    #[serde(default = "yes")]
    pub sides: bool,
}

fn default_max_polls() -> u64 {
    5_000_000
}
fn yes() -> bool {
    true
}

fn default_map_size() -> usize {
    256 * 1024 * 1024
}

pub fn bits(v: &[f32]) -> Vec<u32> {
    v.iter().map(|x| x.to_bits()).collect()
}
pub fn unbits(v: &[u32]) -> Vec<f32> {
    v.iter().map(|x| f32::from_bits(*x)).collect()
}
