//! Drivers for the fault / memory / degenerate-data families (C10, C14, C20, C13).

use rand::rngs::StdRng;
use rand::seq::SliceRandom;
use rand::{Rng, SeedableRng};

use crate::gen::{gen_vector, profile};
use crate::hist::{bits, BuildOpts, History, IndexDecl, Op};
use crate::metric::{Metric, ALL_METRICS};

fn opts(rng: &mut StdRng) -> BuildOpts {
    BuildOpts { seed: rng.gen(), ..Default::default() }
}

/// C10, cancellation: a built + committed index with pending insertions and deletions
/// (committed, unbuilt); then one build per enumerated cancellation point, each followed by an
/// abort, and now and then a clean retry with search. `polls` = number of polls of the fault-free
/// build (None in the measuring phase).
pub fn cancel_history(seed: u64, polls: Option<u64>, thorough: bool) -> History {
    cancel_history_at(seed, polls, thorough, &[])
}

/// `boundaries`: poll counts at which the fault-free build announced a new phase; every poll within 3 of
/// a boundary is enumerated even in the quick tier (the first poll of a phase is where a misplaced or
/// dropped cancellation check shows)
pub fn cancel_history_at(seed: u64, polls: Option<u64>, thorough: bool, boundaries: &[u64]) -> History {
    let mut rng = StdRng::seed_from_u64(seed);
    let p = profile("forest");
    let metric = *ALL_METRICS.choose(&mut rng).unwrap();
    let dim = *[2usize, 3, 5, 17].choose(&mut rng).unwrap();
    let idx = *[0u16, 1, 65535].choose(&mut rng).unwrap();
    let n0 = rng.gen_range(6..=14);
    let mut ops = Vec::new();
    for id in 0..n0 {
        ops.push(Op::Add { idx, id, v: gen_vector(&mut rng, dim, &p, false) });
    }
    let n_trees = *[None, Some(2), Some(3)].choose(&mut rng).unwrap();
    let split_after = *[None, Some(1), Some(2)].choose(&mut rng).unwrap();
    let base = BuildOpts { n_trees, split_after, seed: rng.gen(), ..Default::default() };
    ops.push(Op::Build { idx, o: base.clone() });
    ops.push(Op::Commit);
    // pending updates, one of three shapes: insertions (new + overwrites) mixed with deletions,
    // deletions only, insertions only
    let shape = rng.gen_range(0..3);
    for _ in 0..rng.gen_range(3..=8) {
        let id = rng.gen_range(0..n0 + 6);
        let del = match shape {
            0 => rng.gen_bool(0.35),
            1 => true,
            _ => false,
        };
        if del {
            ops.push(Op::Del { idx, id: id % n0 });
        } else {
            ops.push(Op::Add { idx, id, v: gen_vector(&mut rng, dim, &p, false) });
        }
    }
    if shape != 2 {
        ops.push(Op::Del { idx, id: 0 });
    }
    if shape != 1 {
        ops.push(Op::Add { idx, id: n0 + 7, v: gen_vector(&mut rng, dim, &p, false) });
    }
    ops.push(Op::Commit);
    match polls {
        None => {
            ops.push(Op::Build { idx, o: base.clone() });
            ops.push(Op::Abort);
        }
        Some(total) => {
            let mut points: Vec<u64> = if thorough || total <= 90 {
                (0..=total + 1).collect()
            } else {
                let mut v: Vec<u64> = (0..30).collect();
                v.extend(total.saturating_sub(9)..=total + 1);
                let stride = ((total - 40) / 40).max(1);
                v.extend((30..total.saturating_sub(9)).step_by(stride as usize));
                v
            };
            for b in boundaries {
                points.extend(b.saturating_sub(3)..=(b + 3).min(total + 1));
            }
            points.sort();
            points.dedup();
            for (k, n) in points.iter().enumerate() {
                if k % 4 == 2 {
                    // "retrying without the fault succeeds" with the very same builder value: the faulty attempt is rolled
                    // back inside (nested transaction), the event is the second attempt's
                    ops.push(Op::Build { idx, o: BuildOpts { cancel_at: Some(*n), retry_same_builder: true, ..base.clone() } });
                    if k % 12 == 2 {
                        ops.push(Op::Search { idx, seed: rng.gen() });
                    }
                    ops.push(Op::Abort);
                    continue;
                }
                ops.push(Op::Build { idx, o: BuildOpts { cancel_at: Some(*n), ..base.clone() } });
                ops.push(Op::Abort);
                if k % 10 == 9 {
                    // clean retry: must succeed and be a valid, searchable index; then roll back again
                    ops.push(Op::Build { idx, o: base.clone() });
                    ops.push(Op::Search { idx, seed: rng.gen() });
                    ops.push(Op::Abort);
                }
            }
            ops.push(Op::Build { idx, o: base.clone() });
            ops.push(Op::Search { idx, seed: rng.gen() });
            ops.push(Op::Commit);
        }
    }
    History {
        indexes: vec![IndexDecl { idx, metric, dim }],
        ops,
        map_size: 256 * 1024 * 1024,
        label: format!("cancel:{seed}"),
        faults: vec![],
        max_polls: 5_000_000,
        sides: true,
    }
}

/// C10, out of space: the same operations under LMDB map sizes from tiny to ample.
pub fn mapfull_histories(seed: u64, pages: Option<(u64, u64)>, fine: bool) -> Vec<History> {
    let mut rng = StdRng::seed_from_u64(seed);
    let p = profile("forest");
    let metric = *ALL_METRICS.choose(&mut rng).unwrap();
    let dim = *[8usize, 30, 64].choose(&mut rng).unwrap();
    let n: u32 = *[60u32, 150, 400].choose(&mut rng).unwrap();
    let items: Vec<(u32, Vec<u32>)> = (0..n).map(|id| (id, gen_vector(&mut rng, dim, &p, false))).collect();
    let (first, second) = items.split_at((n as usize) * 2 / 3);
    let o = BuildOpts { n_trees: Some(2), seed: rng.gen(), ..Default::default() };
    let mut out = Vec::new();
    // powers of two from tiny to ample, then (when the page usage of the fault-free run is known) every few pages
    // between what the first version needs and what the last one needs: the second build then runs out of space in
    // each of its phases in turn, including the write-back of the temp nodes
    let mut sizes: Vec<usize> = [15usize, 16, 17, 18, 19, 20, 21, 23, 28].iter().map(|s| 1usize << s).collect();
    if let Some((lo, hi)) = pages {
        let (lo, hi) = (lo as usize, hi as usize + 3);
        let step = ((hi.saturating_sub(lo)) / if fine { 60 } else { 22 }).max(1);
        sizes.extend((lo..=hi).step_by(step).map(|p| p * 4096));
    }
    for map_size in sizes {
        let ops = vec![
            Op::AddMany { idx: 3, items: first.to_vec() },
            Op::Build { idx: 3, o: o.clone() },
            Op::Commit,
            Op::AddMany { idx: 3, items: second.to_vec() },
            Op::DelMany { idx: 3, ids: (0..n / 5).collect() },
            Op::Build { idx: 3, o: o.clone() },
            Op::Abort,
            Op::Build { idx: 3, o: o.clone() },
            Op::Commit,
        ];
        out.push(History {
            indexes: vec![IndexDecl { idx: 3, metric, dim }],
            ops,
            map_size,
            label: format!("mapfull:{seed}:{map_size}"),
            faults: vec!["mapfull".into()],
            max_polls: 2_000_000,
            sides: false,
        });
    }
    out
}

/// C10, out of space at page granularity: a committed built index with committed, unbuilt insertions and deletions;
/// then the same build under every number of free pages from 0 to what it needs (the map is resized before each
/// attempt), each followed by an abort; finally an ample map, a build, a search and a commit.
pub fn mapfull_pages_history(seed: u64, need: Option<u64>, fine: bool) -> History {
    let mut rng = StdRng::seed_from_u64(seed);
    let p = profile("forest");
    let metric = *ALL_METRICS.choose(&mut rng).unwrap();
    let dim = *[8usize, 30].choose(&mut rng).unwrap();
    let n: u32 = *[60u32, 120, 200].choose(&mut rng).unwrap();
    let items: Vec<(u32, Vec<u32>)> = (0..n).map(|id| (id, gen_vector(&mut rng, dim, &p, false))).collect();
    let (first, second) = items.split_at((n as usize) * 2 / 3);
    let o = BuildOpts { n_trees: Some(2), seed: rng.gen(), ..Default::default() };
    let mut ops = vec![
        Op::AddMany { idx: 3, items: first.to_vec() },
        Op::Build { idx: 3, o: BuildOpts { map_free_pages: Some(1 << 16), ..o.clone() } },
        Op::Commit,
        Op::AddMany { idx: 3, items: second.to_vec() },
        Op::DelMany { idx: 3, ids: (0..n / 3).collect() },
        Op::Commit,
    ];
    if let Some(k) = need {
        let k = k as usize + 6;
        let step = if fine { 1 } else { (k / 45).max(1) };
        for free in (0..=k).step_by(step) {
            ops.push(Op::Build { idx: 3, o: BuildOpts { map_free_pages: Some(free), ..o.clone() } });
            ops.push(Op::Abort);
        }
    }
    ops.push(Op::Build { idx: 3, o: BuildOpts { map_free_pages: Some(1 << 16), ..o.clone() } });
    ops.push(Op::Search { idx: 3, seed: rng.gen() });
    ops.push(Op::Commit);
    History {
        indexes: vec![IndexDecl { idx: 3, metric, dim }],
        ops,
        map_size: 1 << 30,
        label: format!("mapfull-pages:{seed}"),
        faults: vec!["mapfull".into()],
        max_polls: 2_000_000,
        sides: false,
    }
}

/// C10, unusable temp directory, then a usable one (no entry may stay behind)
pub fn tmpdir_history(seed: u64) -> History {
    let mut rng = StdRng::seed_from_u64(seed);
    let p = profile("forest");
    let metric = *ALL_METRICS.choose(&mut rng).unwrap();
    let dim = *[2usize, 3, 8].choose(&mut rng).unwrap();
    let n = rng.gen_range(8..=30);
    let mut ops = Vec::new();
    let items: Vec<(u32, Vec<u32>)> = (0..n).map(|id| (id, gen_vector(&mut rng, dim, &p, false))).collect();
    ops.push(Op::AddMany { idx: 0, items });
    let base = BuildOpts { n_trees: Some(2), seed: rng.gen(), ..Default::default() };
    for bad in ["$TMP/missing", "$TMP/afile"] {
        ops.push(Op::Build { idx: 0, o: BuildOpts { tmpdir: Some(bad.into()), ..base.clone() } });
        ops.push(Op::Abort);
        let items: Vec<(u32, Vec<u32>)> = (0..n).map(|id| (id, gen_vector(&mut rng, dim, &p, false))).collect();
        ops.push(Op::AddMany { idx: 0, items });
    }
    ops.push(Op::Build { idx: 0, o: BuildOpts { tmpdir: Some("$TMP/adir".into()), ..base.clone() } });
    ops.push(Op::Search { idx: 0, seed: rng.gen() });
    ops.push(Op::Commit);
    // incremental round, bad dir again on a built index
    ops.push(Op::Del { idx: 0, id: 1 });
    ops.push(Op::Add { idx: 0, id: 1000, v: gen_vector(&mut rng, dim, &p, false) });
    ops.push(Op::Build { idx: 0, o: BuildOpts { tmpdir: Some("$TMP/missing".into()), ..base.clone() } });
    ops.push(Op::Abort);
    ops.push(Op::Del { idx: 0, id: 1 });
    ops.push(Op::Add { idx: 0, id: 1000, v: gen_vector(&mut rng, dim, &p, false) });
    ops.push(Op::Build { idx: 0, o: BuildOpts { tmpdir: Some("$TMP/adir".into()), cancel_at: Some(rng.gen_range(0..40)), ..base.clone() } });
    ops.push(Op::Abort);
    ops.push(Op::Del { idx: 0, id: 1 });
    ops.push(Op::Add { idx: 0, id: 1000, v: gen_vector(&mut rng, dim, &p, false) });
    ops.push(Op::Build { idx: 0, o: BuildOpts { tmpdir: Some("$TMP/adir".into()), ..base.clone() } });
    ops.push(Op::Commit);
    History {
        indexes: vec![IndexDecl { idx: 0, metric, dim }],
        ops,
        map_size: 256 * 1024 * 1024,
        label: format!("tmpdir:{seed}"),
        faults: vec![],
        max_polls: 2_000_000,
        sides: false,
    }
}

/// C14: available_memory x item counts around the 200-item minimum batch x capacities
pub fn mem_history(seed: u64, thorough: bool) -> History {
    let mut rng = StdRng::seed_from_u64(seed);
    let p = profile("forest");
    let metric = *ALL_METRICS.choose(&mut rng).unwrap();
    let dim = *[8usize, 30].choose(&mut rng).unwrap();
    let sizes: &[u32] = if thorough { &[150, 199, 200, 201, 300, 450, 520, 1000] } else { &[150, 199, 200, 201, 300, 450, 520] };
    let n = *sizes.choose(&mut rng).unwrap();
    let item_bytes = (n as usize) * (dim * 4 + 16);
    let mems = [Some(0usize), Some(4096), Some(16 * 4096), Some(item_bytes), Some(item_bytes / 2), Some(1 << 30), None, Some(usize::MAX), Some(usize::MAX / 2 + 1)];
    let split = *[None, None, Some(50usize), Some(250)].choose(&mut rng).unwrap();
    let n_trees = *[None, Some(1), Some(3)].choose(&mut rng).unwrap();
    let mut mk = |rng: &mut StdRng| BuildOpts {
        n_trees,
        split_after: split,
        mem: *mems.choose(rng).unwrap(),
        seed: rng.gen(),
        ..Default::default()
    };
    let mut ops = Vec::new();
    let items: Vec<(u32, Vec<u32>)> = (0..n).map(|id| (id, gen_vector(&mut rng, dim, &p, false))).collect();
    ops.push(Op::AddMany { idx: 0, items });
    ops.push(Op::Build { idx: 0, o: mk(&mut rng) });
    ops.push(Op::Search { idx: 0, seed: rng.gen() });
    ops.push(Op::Commit);
    if rng.gen_bool(0.4) {
        // shrink, then grow far beyond the old size under a small hint: the second growth recycles the node ids
        // freed by the shrinking build, and its over-full buckets are split in several batches
        // (small buckets: many tree nodes, many recycled ids)
        let dim = *[4usize, 8].choose(&mut rng).unwrap();
        let mut mk = |rng: &mut StdRng| BuildOpts { n_trees: n_trees.or(Some(2)), split_after: None, mem: *mems.choose(rng).unwrap(), seed: rng.gen(), ..Default::default() };
        let mut ops = Vec::new();
        let items: Vec<(u32, Vec<u32>)> = (0..n).map(|id| (id, gen_vector(&mut rng, dim, &p, false))).collect();
        ops.push(Op::AddMany { idx: 0, items });
        ops.push(Op::Build { idx: 0, o: mk(&mut rng) });
        ops.push(Op::Commit);
        let keep = rng.gen_range(3..=14u32);
        ops.push(Op::DelMany { idx: 0, ids: (keep..n).collect() });
        ops.push(Op::Build { idx: 0, o: mk(&mut rng) });
        ops.push(Op::Commit);
        let grow = *(if thorough { &[700u32, 1300, 2600][..] } else { &[500u32, 800][..] }).choose(&mut rng).unwrap();
        let adds: Vec<(u32, Vec<u32>)> = (5000..5000 + grow).map(|id| (id, gen_vector(&mut rng, dim, &p, false))).collect();
        ops.push(Op::AddMany { idx: 0, items: adds });
        let small = *[Some(0usize), Some(4096), Some(4 * 4096), Some(16 * 4096)].choose(&mut rng).unwrap();
        ops.push(Op::Build { idx: 0, o: BuildOpts { mem: small, ..mk(&mut rng) } });
        ops.push(Op::Search { idx: 0, seed: rng.gen() });
        ops.push(Op::Commit);
        return History {
            indexes: vec![IndexDecl { idx: 0, metric, dim }],
            ops,
            map_size: 1 << 30,
            label: format!("mem:{seed}:shrink-grow"),
            faults: vec![],
            max_polls: 2_000_000,
            sides: false,
        };
    }
    for _ in 0..rng.gen_range(1..=2) {
        // large insertion mixed with deletions and overwrites
        let dels: Vec<u32> = (0..n).filter(|_| rng.gen_bool(0.12)).collect();
        let extra = *[20u32, 210, 320].choose(&mut rng).unwrap();
        let mut adds: Vec<(u32, Vec<u32>)> = (n..n + extra).map(|id| (id, gen_vector(&mut rng, dim, &p, false))).collect();
        for id in (0..n).filter(|_| rng.gen_bool(0.05)).collect::<Vec<_>>() {
            adds.push((id, gen_vector(&mut rng, dim, &p, false)));
        }
        ops.push(Op::DelMany { idx: 0, ids: dels });
        ops.push(Op::AddMany { idx: 0, items: adds });
        ops.push(Op::Build { idx: 0, o: mk(&mut rng) });
        ops.push(Op::Search { idx: 0, seed: rng.gen() });
        ops.push(Op::Commit);
    }
    History {
        indexes: vec![IndexDecl { idx: 0, metric, dim }],
        ops,
        map_size: 1 << 30,
        label: format!("mem:{seed}"),
        faults: vec![],
        max_polls: 400_000,
        sides: false,
    }
}

/// C20: degenerate datasets
pub fn degenerate_history(seed: u64, thorough: bool) -> History {
    let mut rng = StdRng::seed_from_u64(seed);
    let metric = *ALL_METRICS.choose(&mut rng).unwrap();
    let dim = *[1usize, 2, 3, 8, 33].choose(&mut rng).unwrap();
    let sizes: &[u32] = if thorough { &[1, 2, 5, 20, 64, 150, 300, 1000, 3000] } else { &[1, 2, 5, 20, 64, 150, 300] };
    let n = *sizes.choose(&mut rng).unwrap();
    let kind = rng.gen_range(0..8);
    let base: Vec<f32> = (0..dim).map(|_| rng.gen_range(-2.0f32..2.0)).collect();
    let dir: Vec<f32> = (0..dim).map(|_| rng.gen_range(-1.0f32..1.0)).collect();
    let k_distinct: Vec<Vec<f32>> = (0..rng.gen_range(2..=4)).map(|_| (0..dim).map(|_| rng.gen_range(-2i32..=2) as f32).collect()).collect();
    let mut vec_of = |i: u32, rng: &mut StdRng| -> Vec<f32> {
        match kind {
            0 => base.clone(),                                                    // one vector repeated
            1 => k_distinct[(i as usize) % k_distinct.len()].clone(),             // k vectors repeated
            2 => {
                if i % 3 == 0 {
                    vec![0.0; dim]
                } else {
                    k_distinct[(i as usize) % k_distinct.len()].clone()
                }
            } // zeros mixed in
            3 => base.iter().zip(&dir).map(|(b, d)| b + d * (i as f32)).collect(), // collinear
            4 => (0..dim).map(|_| [0.0f32, 1.0, -1.0][rng.gen_range(0..3)]).collect(), // coordinates in {0, +-1}
            5 => (0..dim).map(|_| if rng.gen() { f32::MAX } else { -f32::MAX } * [1.0f32, 0.5, 1e-3][rng.gen_range(0..3)]).collect(), // huge
            6 => (0..dim).map(|_| f32::from_bits(rng.gen_range(1u32..0x0080_0000)) * if rng.gen() { 1.0 } else { -1.0 }).collect(), // subnormal
            _ => (0..dim)
                .map(|_| match rng.gen_range(0..6) {
                    0 => f32::NAN,
                    1 => f32::INFINITY,
                    2 => f32::NEG_INFINITY,
                    _ => rng.gen_range(-1.0f32..1.0),
                })
                .collect(), // NaN / inf components
        }
    };
    let items: Vec<(u32, Vec<u32>)> = (0..n).map(|id| (id, bits(&vec_of(id, &mut rng)))).collect();
    let n_trees = *[None, Some(2)].choose(&mut rng).unwrap();
    let mut ops = vec![
        Op::AddMany { idx: 0, items },
        Op::Build { idx: 0, o: BuildOpts { n_trees, seed: rng.gen(), ..Default::default() } },
        Op::Search { idx: 0, seed: rng.gen() },
        Op::Commit,
    ];
    let more: Vec<(u32, Vec<u32>)> = (0..(n / 4).max(1)).map(|k| (k * 3, bits(&vec_of(k + 1, &mut rng)))).collect();
    ops.push(Op::AddMany { idx: 0, items: more });
    ops.push(Op::DelMany { idx: 0, ids: vec![0, n / 2] });
    ops.push(Op::Build { idx: 0, o: BuildOpts { n_trees, seed: rng.gen(), ..Default::default() } });
    ops.push(Op::Search { idx: 0, seed: rng.gen() });
    ops.push(Op::Commit);
    let _ = opts(&mut rng);
    History {
        indexes: vec![IndexDecl { idx: 0, metric, dim }],
        ops,
        map_size: 1 << 30,
        label: format!("degenerate:{seed}:kind{kind}"),
        faults: vec![],
        max_polls: 3_000_000,
        sides: n <= 20,
    }
}

/// C07, key-range boundaries: two indexes, each first brought into one of the sparse key shapes
/// (nothing / items and marks only / items only / version and items / metadata only / fully built by
/// the shortcut or by the full path), committed; then every kind of operation on ONE of them.
/// A range scan that runs past its own index meets a different kind of key first in each shape.
pub fn neighbours_history(seed: u64) -> History {
    let mut rng = StdRng::seed_from_u64(seed);
    let p = profile("multi");
    let pair = *crate::gen::INDEX_PAIRS.choose(&mut rng).unwrap();
    let dims = [*[2usize, 3, 5].choose(&mut rng).unwrap(), *[2usize, 3, 5].choose(&mut rng).unwrap()];
    let mut metrics = [*ALL_METRICS.choose(&mut rng).unwrap(), *ALL_METRICS.choose(&mut rng).unwrap()];
    let decl: Vec<IndexDecl> = (0..2).map(|j| IndexDecl { idx: pair[j], metric: metrics[j], dim: dims[j] }).collect();
    let ids: [u32; 7] = [0, 1, 2, 3, 7, u32::MAX - 1, u32::MAX];
    let mut ops = Vec::new();
    let other_metric = |m: Metric, rng: &mut StdRng| loop {
        let t = *ALL_METRICS.choose(rng).unwrap();
        if t != m {
            return t;
        }
    };
    let mut shapes = Vec::new();
    for j in 0..2 {
        let idx = pair[j];
        let shape = rng.gen_range(0..8);
        shapes.push(shape);
        let few: Vec<(u32, Vec<u32>)> = ids.iter().take(2).map(|id| (*id, gen_vector(&mut rng, dims[j], &p, false))).collect();
        let many: Vec<(u32, Vec<u32>)> = ids.iter().map(|id| (*id, gen_vector(&mut rng, dims[j], &p, false))).collect();
        let full = BuildOpts { split_after: Some(2), n_trees: Some(2), seed: rng.gen(), ..Default::default() };
        let shortcut = BuildOpts { split_after: Some(20), seed: rng.gen(), ..Default::default() };
        match shape {
            0 => {}                                                                  // no key at all
            1 => ops.push(Op::AddMany { idx, items: many }),                          // marks + items, never built
            2 => {
                // built by the full path (no version record), then prepared for another metric: items only
                ops.push(Op::AddMany { idx, items: many });
                ops.push(Op::Build { idx, o: full });
                let to = other_metric(metrics[j], &mut rng);
                ops.push(Op::ChangeMetric { idx, to });
                metrics[j] = to;
            }
            3 => {
                // built by the shortcut (version record), then prepared for another metric: version + items
                ops.push(Op::AddMany { idx, items: few });
                ops.push(Op::Build { idx, o: shortcut });
                let to = other_metric(metrics[j], &mut rng);
                ops.push(Op::ChangeMetric { idx, to });
                metrics[j] = to;
            }
            4 => ops.push(Op::Build { idx, o: shortcut }),                            // built empty: metadata (and version) only
            5 => {
                ops.push(Op::AddMany { idx, items: few });
                ops.push(Op::Build { idx, o: shortcut });
            }
            6 => {
                ops.push(Op::AddMany { idx, items: many });
                ops.push(Op::Build { idx, o: full });
            }
            _ => {
                // fully built, then everything deleted and rebuilt: metadata without items
                ops.push(Op::AddMany { idx, items: many });
                ops.push(Op::Build { idx, o: full.clone() });
                ops.push(Op::DelMany { idx, ids: ids.to_vec() });
                ops.push(Op::Build { idx, o: full });
            }
        }
    }
    ops.push(Op::Commit);
    // the probes: operations on one index only; the trace compares the other one byte for byte after each
    for _ in 0..rng.gen_range(1..=3) {
        let j = rng.gen_range(0..2);
        let idx = pair[j];
        let id = *ids.choose(&mut rng).unwrap();
        match rng.gen_range(0..8) {
            0 => {
                let to = other_metric(metrics[j], &mut rng);
                ops.push(Op::ChangeMetric { idx, to });
                metrics[j] = to;
            }
            1 => ops.push(Op::Clear { idx }),
            2 => ops.push(Op::Build { idx, o: BuildOpts { split_after: Some(2), seed: rng.gen(), ..Default::default() } }),
            3 => ops.push(Op::Add { idx, id, v: gen_vector(&mut rng, dims[j], &p, false) }),
            4 => ops.push(Op::Append { idx, id, v: gen_vector(&mut rng, dims[j], &p, false) }),
            5 => ops.push(Op::Del { idx, id }),
            6 => ops.push(Op::DelMany { idx, ids: ids.to_vec() }),
            _ => {
                ops.push(Op::Add { idx, id, v: gen_vector(&mut rng, dims[j], &p, false) });
                ops.push(Op::Build { idx, o: BuildOpts { split_after: Some(2), n_trees: Some(3), seed: rng.gen(), ..Default::default() } });
            }
        }
        if rng.gen_bool(0.3) {
            ops.push(Op::Commit);
        }
    }
    // bring both to a built state again and look at them
    for j in 0..2 {
        ops.push(Op::Build { idx: pair[j], o: BuildOpts { split_after: Some(2), seed: rng.gen(), ..Default::default() } });
        ops.push(Op::Search { idx: pair[j], seed: rng.gen() });
    }
    ops.push(Op::Commit);
    let mut sorted = decl.clone();
    sorted.sort_by_key(|d| d.idx);
    History {
        indexes: decl,
        ops,
        map_size: 256 * 1024 * 1024,
        label: format!("neighbours:{seed}:shapes{}{}", shapes[0], shapes[1]),
        faults: vec![],
        max_polls: 2_000_000,
        sides: true,
    }
}

/// C04, skewed data: one big cluster on one side of the origin, a few outliers on the opposite side and a few
/// points near the boundary, in buckets large enough for the split search to run out of attempts (every
/// candidate plane is badly balanced), then an incremental round. Margins are logged (`sides`).
pub fn skewed_history(seed: u64, thorough: bool) -> History {
    let mut rng = StdRng::seed_from_u64(seed);
    let metric = *ALL_METRICS.choose(&mut rng).unwrap();
    let dim = *[2usize, 2, 3, 5].choose(&mut rng).unwrap();
    let sizes: &[u32] = if thorough { &[24, 60, 150, 400, 600] } else { &[24, 60, 150, 400] };
    let n = *sizes.choose(&mut rng).unwrap();
    let outliers = (n / rng.gen_range(20..=50)).max(1);
    let centre = (n / 30).max(2);
    let axis = rng.gen_range(0..dim);
    let mut point = |kind: u8, rng: &mut StdRng| -> Vec<f32> {
        (0..dim)
            .map(|j| {
                if j == axis {
                    match kind {
                        0 => 5.0 + rng.gen_range(-2.0f32..2.0),
                        1 => -5.0 + rng.gen_range(-2.0f32..2.0),
                        _ => rng.gen_range(-0.03f32..0.03),
                    }
                } else {
                    rng.gen_range(-1.0f32..1.0)
                }
            })
            .collect()
    };
    let kind_of = |id: u32| if id < n - outliers - centre { 0 } else if id < n - centre { 1 } else { 2 };
    let items: Vec<(u32, Vec<u32>)> = (0..n).map(|id| (id, bits(&point(kind_of(id), &mut rng)))).collect();
    let split_after = match rng.gen_range(0..4) {
        0 => Some((n - centre / 2) as usize),
        1 => Some((n / 2) as usize),
        2 if n <= 60 => None,
        _ => Some((n - outliers - 1).max(2) as usize),
    };
    let n_trees = *[Some(1usize), Some(1), Some(2)].choose(&mut rng).unwrap();
    let mut ops = vec![
        Op::AddMany { idx: 0, items },
        Op::Build { idx: 0, o: BuildOpts { n_trees, split_after, seed: rng.gen(), ..Default::default() } },
        Op::Search { idx: 0, seed: rng.gen() },
        Op::Commit,
    ];
    let more: Vec<(u32, Vec<u32>)> = (0..(n / 8).max(2)).map(|k| (n + k, bits(&point(if k % 7 == 0 { 1 } else { 0 }, &mut rng)))).collect();
    ops.push(Op::AddMany { idx: 0, items: more });
    ops.push(Op::DelMany { idx: 0, ids: vec![0, n / 3, n - 1] });
    ops.push(Op::Build { idx: 0, o: BuildOpts { n_trees, split_after, seed: rng.gen(), ..Default::default() } });
    ops.push(Op::Search { idx: 0, seed: rng.gen() });
    ops.push(Op::Commit);
    History {
        indexes: vec![IndexDecl { idx: 0, metric, dim }],
        ops,
        map_size: 1 << 30,
        label: format!("skewed:{seed}:n{n}"),
        faults: vec![],
        max_polls: 3_000_000,
        sides: true,
    }
}

/// C04 "survives overwrites": a built single- or two-tree index in which a quarter of the items is then overwritten
/// by vectors that some metric cannot tell from the old ones although they point elsewhere (quarter turns: inner
/// product exactly 0; scaled copies; sign flips; differences below f32 resolution), plus one new item; rebuilt and searched.
pub fn overwrite_history(seed: u64) -> History {
    let mut rng = StdRng::seed_from_u64(seed);
    let metric = *[Metric::DotProduct, Metric::DotProduct, Metric::Cosine, Metric::Euclidean, Metric::Manhattan, Metric::BqCosine, Metric::BqEuclidean].choose(&mut rng).unwrap();
    let dim = *[2usize, 3, 4, 5].choose(&mut rng).unwrap();
    let n = rng.gen_range(24..=72u32);
    let unit = rng.gen_bool(0.5);
    let mut vecs: Vec<Vec<f32>> = (0..n)
        .map(|_| {
            let v: Vec<f32> = (0..dim).map(|_| if unit { rng.gen_range(-1.0f32..1.0) } else { rng.gen_range(-4i32..=4) as f32 }).collect();
            if unit {
                let norm = v.iter().map(|x| x * x).sum::<f32>().sqrt().max(1e-3);
                v.iter().map(|x| x / norm).collect()
            } else {
                v
            }
        })
        .collect();
    let items: Vec<(u32, Vec<u32>)> = vecs.iter().enumerate().map(|(i, v)| (i as u32, bits(v))).collect();
    let o = |rng: &mut StdRng| BuildOpts { n_trees: Some(*[1usize, 1, 2].choose(rng).unwrap()), split_after: *[None, Some(3usize), Some(6)].choose(rng).unwrap(), seed: rng.gen(), ..Default::default() };
    let mut ops = vec![Op::AddMany { idx: 0, items }, Op::Build { idx: 0, o: o(&mut rng) }, Op::Search { idx: 0, seed: rng.gen() }, Op::Commit];
    for round in 0..2 {
        for id in (0..n).filter(|i| (i + round) % 4 == 0) {
            let old = vecs[id as usize].clone();
            let mut new = vec![0.0f32; dim];
            match rng.gen_range(0..5) {
                0 | 1 => {
                    new[0] = -old[1];
                    new[1] = old[0];
                }
                2 => {
                    let k = [2.0f32, 0.5, 1e-3][rng.gen_range(0..3)];
                    for j in 0..dim {
                        new[j] = old[j] * k;
                    }
                }
                3 => {
                    for j in 0..dim {
                        new[j] = -old[j];
                    }
                }
                _ => {
                    for j in 0..dim {
                        new[j] = old[j] + 1e-30;
                    }
                }
            }
            vecs[id as usize] = new.clone();
            ops.push(Op::Add { idx: 0, id, v: bits(&new) });
        }
        ops.push(Op::Add { idx: 0, id: n + round, v: bits(&vecs[0]) });
        ops.push(Op::Build { idx: 0, o: o(&mut rng) });
        ops.push(Op::Search { idx: 0, seed: rng.gen() });
        ops.push(Op::Commit);
    }
    History {
        indexes: vec![IndexDecl { idx: 0, metric, dim }],
        ops,
        map_size: 256 * 1024 * 1024,
        label: format!("overwrite:{seed}"),
        faults: vec![],
        max_polls: 2_000_000,
        sides: true,
    }
}

pub fn metric_of(h: &History) -> Metric {
    h.indexes[0].metric
}

/// Specification -> implementation: a behaviour of Arroy.tla printed by Replay.tla (a list of
/// {op, i, id, t, req, cap}) instantiated with concrete indexes, ids and vectors.
pub fn history_from_model(ops: &serde_json::Value, seed: u64) -> History {
    let mut rng = StdRng::seed_from_u64(seed);
    let p = profile("forest");
    let pair = crate::gen::INDEX_PAIRS[rng.gen_range(0..crate::gen::INDEX_PAIRS.len())];
    let metric = *ALL_METRICS.choose(&mut rng).unwrap();
    let dim = *[1usize, 2, 3, 5, 17].choose(&mut rng).unwrap();
    // ids 1..4 of the model -> ascending concrete ids
    let mut ids: Vec<u32> = crate::gen::ID_POOL.choose_multiple(&mut rng, 4).copied().collect();
    ids.sort();
    let toks: std::collections::BTreeMap<String, Vec<u32>> =
        ["a", "b", "c"].iter().map(|t| (t.to_string(), gen_vector(&mut rng, dim, &p, false))).collect();
    let mut out = Vec::new();
    for o in ops.as_array().unwrap() {
        let idx = pair[(o["i"].as_u64().unwrap_or(1).max(1) as usize - 1) % 2];
        let id = ids[(o["id"].as_u64().unwrap_or(1).max(1) as usize - 1) % 4];
        match o["op"].as_str().unwrap() {
            "add" => out.push(Op::Add { idx, id, v: toks[o["t"].as_str().unwrap()].clone() }),
            "append" => out.push(Op::Append { idx, id, v: toks[o["t"].as_str().unwrap()].clone() }),
            "del" => out.push(Op::Del { idx, id }),
            "clear" => out.push(Op::Clear { idx }),
            "build" => {
                let req = o["req"].as_u64().unwrap() as usize;
                out.push(Op::Build {
                    idx,
                    o: BuildOpts { n_trees: if req == 0 { None } else { Some(req) }, split_after: Some(o["cap"].as_u64().unwrap() as usize), seed: rng.gen(), ..Default::default() },
                });
                if rng.gen_bool(0.3) {
                    out.push(Op::Search { idx, seed: rng.gen() });
                }
            }
            "commit" => out.push(Op::Commit),
            "abort" => out.push(Op::Abort),
            _ => {}
        }
    }
    History {
        indexes: pair.iter().map(|i| IndexDecl { idx: *i, metric, dim }).collect(),
        ops: out,
        map_size: 64 * 1024 * 1024,
        label: format!("model:{seed}"),
        faults: vec![],
        max_polls: 2_000_000,
        sides: true,
    }
}
