//! C17: the two upgrade functions, exercised on databases obtained by inverting the layout
//! change on databases that the history drivers produced.

use std::collections::BTreeMap;

use heed::types::Bytes;
use rand::rngs::StdRng;
use rand::{Rng, SeedableRng};
use roaring::RoaringBitmap;
use serde_json::{json, Value};

use crate::decode::{self, IndexRaw, RawDump};
use crate::exec::{self, dump, observe, open_env, project_index, work_tmp, Ctx, RawDb};
use crate::gen::{gen_history, profile, Profile};
use crate::hist::{unbits, History, Op};
use crate::metric::{Metric, ALL_METRICS};
use crate::with_metric;

/// executes a history without recording anything; returns the committed dump
fn materialise(h: &History, env: &heed::Env, db: RawDb) -> (RawDump, BTreeMap<u16, Metric>) {
    let mut metric: BTreeMap<u16, Metric> = h.indexes.iter().map(|d| (d.idx, d.metric)).collect();
    let dims: BTreeMap<u16, usize> = h.indexes.iter().map(|d| (d.idx, d.dim)).collect();
    let mut wtxn = None;
    let mut dead = false;
    for op in &h.ops {
        if wtxn.is_none() {
            wtxn = Some(env.write_txn().unwrap());
        }
        if dead && !matches!(op, Op::Commit | Op::Abort) {
            continue;
        }
        let w = wtxn.as_mut().unwrap();
        match op {
            Op::Commit | Op::Abort => {
                let w = wtxn.take().unwrap();
                if matches!(op, Op::Commit) && !dead {
                    w.commit().unwrap();
                } else {
                    w.abort();
                }
                dead = false;
            }
            Op::Add { idx, id, v } | Op::Append { idx, id, v } => {
                let (m, dim) = (metric[idx], dims[idx]);
                if v.len() == dim {
                    with_metric!(m, D, {
                        let adb: arroy::Database<D> = db.remap_types();
                        arroy::Writer::<D>::new(adb, *idx, dim).add_item(w, *id, &unbits(v)).unwrap();
                    });
                }
            }
            Op::Del { idx, id } => {
                let (m, dim) = (metric[idx], dims[idx]);
                with_metric!(m, D, {
                    let adb: arroy::Database<D> = db.remap_types();
                    arroy::Writer::<D>::new(adb, *idx, dim).del_item(w, *id).unwrap();
                });
            }
            Op::Clear { idx } => {
                let (m, dim) = (metric[idx], dims[idx]);
                with_metric!(m, D, {
                    let adb: arroy::Database<D> = db.remap_types();
                    arroy::Writer::<D>::new(adb, *idx, dim).clear(w).unwrap();
                });
            }
            Op::Build { idx, o } => {
                let r = exec::do_build(w, db, *idx, metric[idx], dims[idx], o, 2_000_000);
                if r.res["c"] != "Ok" {
                    dead = true;
                }
            }
            Op::ChangeMetric { .. } | Op::Search { .. } | Op::AddMany { .. } | Op::DelMany { .. } => {}
        }
    }
    if let Some(w) = wtxn.take() {
        w.commit().ok();
    }
    metric = metric.clone();
    let rtxn = env.read_txn().unwrap();
    (dump(db, &rtxn), metric)
}

fn fresh(map: usize) -> (tempfile::TempDir, heed::Env, RawDb) {
    let dir = tempfile::tempdir_in(work_tmp()).unwrap();
    let env = open_env(dir.path(), map);
    let mut w = env.write_txn().unwrap();
    let db: RawDb = env.create_database::<Bytes, Bytes>(&mut w, None).unwrap();
    w.commit().unwrap();
    (dir, env, db)
}

fn load(env: &heed::Env, db: RawDb, d: &RawDump) {
    let mut w = env.write_txn().unwrap();
    for (k, v) in d {
        db.put(&mut w, k, v).unwrap();
    }
    w.commit().unwrap();
}

// ---- the 0.4 layout (Appendix A): kinds Item 0 / Tree 1 / Metadata 2; (i,2,0) metadata, (i,2,1) pending bitmap
fn old_kind(new: u8) -> Option<u8> {
    match new {
        decode::KIND_ITEM => Some(0),
        decode::KIND_TREE => Some(1),
        decode::KIND_METADATA => Some(2),
        _ => None,
    }
}

/// current layout -> 0.4 layout, byte level
pub fn downgrade(d: &RawDump, empty_pending_key: bool) -> RawDump {
    let mut out: BTreeMap<Vec<u8>, Vec<u8>> = BTreeMap::new();
    let mut pending: BTreeMap<u16, RoaringBitmap> = BTreeMap::new();
    for (k, v) in d {
        let key = decode::decode_key(k).unwrap();
        if empty_pending_key {
            // an index without pending updates still has its pending-updates key, holding an empty bitmap
            pending.entry(key.index).or_default();
        }
        match key.kind {
            decode::KIND_UPDATED => {
                pending.entry(key.index).or_default().insert(key.id);
            }
            decode::KIND_METADATA if key.id == 1 => {} // 0.4 has no version record
            decode::KIND_METADATA => {
                // same framing, older metric name
                let m = decode::decode_meta(v).unwrap();
                let mut nv = b"angular".to_vec();
                nv.push(0);
                nv.extend_from_slice(&v[m.metric_name.len() + 1..]);
                out.insert(decode::encode_key(key.index, 2, 0).to_vec(), nv);
            }
            decode::KIND_TREE => {
                let mut nv = v.clone();
                if nv[0] == 2 {
                    nv[1] = old_kind(nv[1]).unwrap();
                    nv[6] = old_kind(nv[6]).unwrap();
                }
                out.insert(decode::encode_key(key.index, 1, key.id).to_vec(), nv);
            }
            decode::KIND_ITEM => {
                out.insert(decode::encode_key(key.index, 0, key.id).to_vec(), v.clone());
            }
            _ => unreachable!(),
        }
    }
    for (idx, bm) in pending {
        let mut bytes = Vec::new();
        bm.serialize_into(&mut bytes).unwrap();
        out.insert(decode::encode_key(idx, 2, 1).to_vec(), bytes);
    }
    out.into_iter().collect()
}

/// abstract view of a 0.4-layout dump, by a decoder written for that layout
fn project_old(ctx: &mut Ctx, d: &RawDump, dims: &BTreeMap<u16, usize>) -> Vec<Value> {
    // translate to the current layout key by key with the OLD numbering, then reuse the projection
    let mut cur: BTreeMap<Vec<u8>, Vec<u8>> = BTreeMap::new();
    let mut pend: BTreeMap<u16, Vec<u32>> = BTreeMap::new();
    for (k, v) in d {
        let index = u16::from_be_bytes([k[0], k[1]]);
        let id = u32::from_be_bytes([k[3], k[4], k[5], k[6]]);
        match (k[2], id) {
            (0, _) => {
                cur.insert(decode::encode_key(index, decode::KIND_ITEM, id).to_vec(), v.clone());
            }
            (1, _) => {
                let mut nv = v.clone();
                if nv[0] == 2 {
                    for p in [1usize, 6] {
                        nv[p] = match nv[p] {
                            0 => decode::KIND_ITEM,
                            1 => decode::KIND_TREE,
                            x => x,
                        };
                    }
                }
                cur.insert(decode::encode_key(index, decode::KIND_TREE, id).to_vec(), nv);
            }
            (2, 0) => {
                cur.insert(decode::encode_key(index, decode::KIND_METADATA, 0).to_vec(), v.clone());
            }
            (2, 1) => {
                let bm = RoaringBitmap::deserialize_from(&v[..]).unwrap();
                pend.insert(index, bm.iter().collect());
            }
            _ => {}
        }
    }
    let dd: RawDump = cur.into_iter().collect();
    let dec = decode::decode_dump(&dd, &|_| Some(Metric::Cosine));
    let empty = IndexRaw::default();
    ctx.idxs
        .clone()
        .iter()
        .map(|i| {
            let mut st = project_index(ctx, dec.get(i).unwrap_or(&empty), Metric::Cosine, dims[i], false);
            st["pending"] = json!(pend.get(i).map(|v| v.iter().map(|x| ctx.rank(*x)).collect::<Vec<_>>()).unwrap_or_default());
            st
        })
        .collect()
}

fn strip_versions(d: &RawDump) -> RawDump {
    d.iter().filter(|(k, _)| !(k[2] == decode::KIND_METADATA && k[3..7] == [0, 0, 0, 1])).cloned().collect()
}

fn diff_count(a: &RawDump, b: &RawDump) -> i64 {
    let ma: BTreeMap<_, _> = a.iter().cloned().collect();
    let mb: BTreeMap<_, _> = b.iter().cloned().collect();
    let mut n = 0;
    for (k, v) in &ma {
        if mb.get(k) != Some(v) {
            n += 1;
        }
    }
    for k in mb.keys() {
        if !ma.contains_key(k) {
            n += 1;
        }
    }
    n
}

pub fn run(seed: u64, count: usize, first_no: usize, out: &mut Vec<Value>) -> usize {
    let mut rng = StdRng::seed_from_u64(seed);
    let mut n = 0;
    for k in 0..count {
        let hno = first_no + k;
        // ---------------- 0.4 -> 0.5 on cosine databases
        let p = Profile { metrics: &crate::gen::SINGLE_METRIC[2], multi_index: 0.7, p_commit: 0.6, p_abort: 0.05, p_search: 0.0, ..profile("forest") };
        let mut h = gen_history(rng.gen(), &p);
        h.ops.push(Op::Commit);
        // leave pending updates on some index now and then
        if rng.gen_bool(0.5) {
            let d = &h.indexes[0];
            h.ops.push(Op::Add { idx: d.idx, id: 3, v: crate::gen::gen_vector(&mut rng, d.dim, &p, false) });
            // a pending deletion of an item that exists (its mark outlives the item), and one of an absent id
            let existing: Option<u32> = h.ops.iter().rev().find_map(|o| match o {
                Op::Add { idx, id, .. } if *idx == d.idx && *id != 3 => Some(*id),
                _ => None,
            });
            if let Some(id) = existing {
                h.ops.push(Op::Del { idx: d.idx, id });
            }
            h.ops.push(Op::Del { idx: d.idx, id: 1 });
            h.ops.push(Op::Commit);
        }
        let dims: BTreeMap<u16, usize> = h.indexes.iter().map(|d| (d.idx, d.dim)).collect();
        let (_d0, env0, db0) = fresh(h.map_size);
        let (orig, _) = materialise(&h, &env0, db0);
        let orig = strip_versions(&orig);
        let old = downgrade(&orig, rng.gen_bool(0.5));
        let (_d1, env_a, db_a) = fresh(h.map_size);
        load(&env_a, db_a, &old);
        let (_d2, env_b, db_b) = fresh(h.map_size);
        let mut ctx = Ctx::new(&h, &[]);
        let res = {
            let rtxn = env_a.read_txn().unwrap();
            let mut w = env_b.write_txn().unwrap();
            let r = std::panic::catch_unwind(std::panic::AssertUnwindSafe(|| {
                arroy::upgrade::cosine_from_0_4_to_0_5(&rtxn, db_a.remap_types(), &mut w, db_b.remap_types())
            }));
            match r {
                Ok(Ok(())) => {
                    w.commit().unwrap();
                    json!({"c":"Ok"})
                }
                Ok(Err(e)) => exec::err_class(&e),
                Err(p) => json!({"c":"Panic","msg":exec::panic_msg(p)}),
            }
        };
        let rtxn = env_b.read_txn().unwrap();
        let post = dump(db_b, &rtxn);
        let proj = |ctx: &mut Ctx, d: &RawDump| -> Vec<Value> {
            let dec = decode::decode_dump(d, &|_| Some(Metric::Cosine));
            let empty = IndexRaw::default();
            ctx.idxs.clone().iter().map(|i| project_index(ctx, dec.get(i).unwrap_or(&empty), Metric::Cosine, dims[i], false)).collect()
        };
        let pre_states = proj(&mut ctx, &orig);
        let old_states = project_old(&mut ctx, &old, &dims);
        let post_states = proj(&mut ctx, &post);
        let obs: Vec<Value> = ctx.idxs.clone().iter().map(|i| observe(&mut ctx, &rtxn, db_b, *i, Metric::Cosine, dims[i])).collect();
        out.push(json!({"ev":"Up04","h":hno as i64,"k":0,"res":res,"pre":pre_states,"old":old_states,"post":post_states,
            "diff_keys": diff_count(&orig, &post), "obs_all": obs, "nkeys": orig.len() as i64, "label": h.label}));
        n += 1;

        // ---------------- 0.5 -> 0.6 on databases of any metric
        let mi = rng.gen_range(0..7);
        let m = ALL_METRICS[mi];
        let p = Profile { metrics: &crate::gen::SINGLE_METRIC[mi], multi_index: 0.7, p_commit: 0.6, p_abort: 0.05, p_search: 0.0, ..profile("forest") };
        let mut h = gen_history(rng.gen(), &p);
        h.ops.push(Op::Commit);
        // now and then an index that holds items and marks but was never built (no metadata: it must get no version record)
        if rng.gen_bool(0.5) {
            let used: Vec<u16> = h.indexes.iter().map(|d| d.idx).collect();
            if let Some(idx) = [5u16, 40000, 65535, 2].iter().copied().find(|i| !used.contains(i)) {
                let dim = h.indexes[0].dim;
                h.indexes.push(crate::hist::IndexDecl { idx, metric: m, dim });
                h.ops.push(Op::Add { idx, id: 4, v: crate::gen::gen_vector(&mut rng, dim, &p, false) });
                h.ops.push(Op::Commit);
            }
        }
        let dims: BTreeMap<u16, usize> = h.indexes.iter().map(|d| (d.idx, d.dim)).collect();
        let (_d0, env0, db0) = fresh(h.map_size);
        let (orig, _) = materialise(&h, &env0, db0);
        let orig = strip_versions(&orig);
        let (_d1, env_a, db_a) = fresh(h.map_size);
        load(&env_a, db_a, &orig);
        let (_d2, env_b, db_b) = fresh(h.map_size);
        load(&env_b, db_b, &orig);
        let mut ctx = Ctx::new(&h, &[]);
        let res = {
            let rtxn = env_a.read_txn().unwrap();
            let mut w = env_b.write_txn().unwrap();
            let r = std::panic::catch_unwind(std::panic::AssertUnwindSafe(|| {
                with_metric!(m, D, { arroy::upgrade::from_0_5_to_0_6::<D>(&rtxn, db_a.remap_types(), &mut w, db_b.remap_types()) })
            }));
            match r {
                Ok(Ok(())) => {
                    w.commit().unwrap();
                    json!({"c":"Ok"})
                }
                Ok(Err(e)) => exec::err_class(&e),
                Err(p) => json!({"c":"Panic","msg":exec::panic_msg(p)}),
            }
        };
        let rtxn = env_b.read_txn().unwrap();
        let post = dump(db_b, &rtxn);
        let projm = |ctx: &mut Ctx, d: &RawDump| -> Vec<Value> {
            let dec = decode::decode_dump(d, &|_| Some(m));
            let empty = IndexRaw::default();
            ctx.idxs.clone().iter().map(|i| project_index(ctx, dec.get(i).unwrap_or(&empty), m, dims[i], false)).collect()
        };
        let pre_states = projm(&mut ctx, &orig);
        let post_states = projm(&mut ctx, &post);
        let foreign = post.iter().filter(|(k, _)| !ctx.idxs.contains(&u16::from_be_bytes([k[0], k[1]]))).count() as i64;
        out.push(json!({"ev":"Up05","h":hno as i64,"k":1,"res":res,"pre":pre_states,"post":post_states,
            "diff_keys": diff_count(&orig, &strip_versions(&post)), "foreign": foreign, "nkeys": orig.len() as i64, "label": h.label}));
        n += 1;
    }
    n
}
