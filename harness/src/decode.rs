//! Reference decoder of the on-disk layout (DESIGN.md Appendix A). It never calls arroy's
//! codecs: keys and values are parsed from raw bytes obtained through heed's `Bytes` codec.
//! The only delegated format is the roaring bitmap portable serialisation (roaring crate).

use std::collections::{BTreeMap, BTreeSet};

use roaring::RoaringBitmap;

use crate::metric::Metric;

pub const KIND_METADATA: u8 = 0;
pub const KIND_UPDATED: u8 = 1;
pub const KIND_TREE: u8 = 2;
pub const KIND_ITEM: u8 = 3;

#[derive(Clone, Copy, Debug, PartialEq, Eq, PartialOrd, Ord, Hash)]
pub struct RawKey {
    pub index: u16,
    pub kind: u8,
    pub id: u32,
}

pub fn encode_key(index: u16, kind: u8, id: u32) -> [u8; 8] {
    let mut k = [0u8; 8];
    k[0..2].copy_from_slice(&index.to_be_bytes());
    k[2] = kind;
    k[3..7].copy_from_slice(&id.to_be_bytes());
    k[7] = 0;
    k
}

pub fn decode_key(bytes: &[u8]) -> Result<RawKey, String> {
    if bytes.len() != 8 {
        return Err(format!("key of {} bytes (expected 8): {:02x?}", bytes.len(), bytes));
    }
    let index = u16::from_be_bytes([bytes[0], bytes[1]]);
    let kind = bytes[2];
    if kind > 3 {
        return Err(format!("unknown key kind {kind}: {:02x?}", bytes));
    }
    let id = u32::from_be_bytes([bytes[3], bytes[4], bytes[5], bytes[6]]);
    if bytes[7] != 0 {
        return Err(format!("non-zero key padding: {:02x?}", bytes));
    }
    Ok(RawKey { index, kind, id })
}

#[derive(Clone, Copy, Debug, PartialEq, Eq, PartialOrd, Ord, Hash)]
pub enum ChildKind {
    Item,
    Tree,
}

#[derive(Clone, Copy, Debug, PartialEq, Eq, PartialOrd, Ord, Hash)]
pub struct Child {
    pub kind: ChildKind,
    pub id: u32,
}

#[derive(Clone, Debug, PartialEq)]
pub enum TreeNode {
    Bucket { items: Vec<u32> },
    Split { left: Child, right: Child, normal: Vec<u8> },
}

#[derive(Clone, Debug, PartialEq)]
pub struct LeafRaw {
    pub header: Vec<u8>,
    pub vector: Vec<u8>,
}

#[derive(Clone, Debug, PartialEq)]
pub struct MetaRaw {
    pub metric_name: String,
    pub dim: u32,
    pub items: Vec<u32>,
    pub roots: Vec<u32>,
}

/// Everything stored under one index number, decoded structurally; vectors stay bytes because
/// their width depends on (metric, dimension) which the layout does not record in the leaf.
#[derive(Clone, Debug, Default, PartialEq)]
pub struct IndexRaw {
    pub meta: Option<MetaRaw>,
    pub version: Option<[u32; 3]>,
    pub updated: BTreeSet<u32>,
    pub nodes: BTreeMap<u32, TreeNode>,
    pub leaves: BTreeMap<u32, LeafRaw>,
    /// layout problems found while decoding (wrong tag under a key kind, bad framing …)
    pub problems: Vec<String>,
}

pub type RawDump = Vec<(Vec<u8>, Vec<u8>)>;

fn decode_child(b: &[u8]) -> Result<Child, String> {
    let kind = match b[0] {
        KIND_ITEM => ChildKind::Item,
        KIND_TREE => ChildKind::Tree,
        k => return Err(format!("child reference of kind {k}")),
    };
    Ok(Child { kind, id: u32::from_be_bytes([b[1], b[2], b[3], b[4]]) })
}

pub fn decode_meta(v: &[u8]) -> Result<MetaRaw, String> {
    let nul = v.iter().position(|b| *b == 0).ok_or("metadata: no NUL after metric name")?;
    let metric_name = std::str::from_utf8(&v[..nul]).map_err(|e| format!("metadata name: {e}"))?.to_string();
    let rest = &v[nul + 1..];
    if rest.len() < 8 {
        return Err("metadata: truncated".into());
    }
    let dim = u32::from_be_bytes([rest[0], rest[1], rest[2], rest[3]]);
    let len = u32::from_be_bytes([rest[4], rest[5], rest[6], rest[7]]) as usize;
    let rest = &rest[8..];
    if rest.len() < len {
        return Err("metadata: bitmap length exceeds value".into());
    }
    let bm = RoaringBitmap::deserialize_from(&rest[..len]).map_err(|e| format!("metadata bitmap: {e}"))?;
    if bm.serialized_size() != len {
        return Err(format!("metadata: bitmap declared {len} bytes, portable form has {}", bm.serialized_size()));
    }
    let rest = &rest[len..];
    if rest.len() % 4 != 0 {
        return Err("metadata: roots not a multiple of 4 bytes".into());
    }
    let roots = rest.chunks_exact(4).map(|c| u32::from_ne_bytes([c[0], c[1], c[2], c[3]])).collect();
    Ok(MetaRaw { metric_name, dim, items: bm.iter().collect(), roots })
}

pub fn decode_tree_node(v: &[u8]) -> Result<TreeNode, String> {
    match v.first() {
        Some(1) => {
            let bm = RoaringBitmap::deserialize_from(&v[1..]).map_err(|e| format!("bucket bitmap: {e}"))?;
            if bm.serialized_size() != v.len() - 1 {
                return Err("bucket: trailing bytes after bitmap".into());
            }
            Ok(TreeNode::Bucket { items: bm.iter().collect() })
        }
        Some(2) => {
            if v.len() < 11 {
                return Err("split: truncated".into());
            }
            let left = decode_child(&v[1..6])?;
            let right = decode_child(&v[6..11])?;
            Ok(TreeNode::Split { left, right, normal: v[11..].to_vec() })
        }
        Some(t) => Err(format!("tree key holds a value with tag {t}")),
        None => Err("tree key holds an empty value".into()),
    }
}

/// Split a raw dump by index number and decode it. `header_len` must be given per index by the
/// caller when it wants leaves split into header and vector (the layout itself does not say
/// which metric a leaf belongs to): `metric_of(index)`.
pub fn decode_dump(dump: &RawDump, metric_of: &dyn Fn(u16) -> Option<Metric>) -> BTreeMap<u16, IndexRaw> {
    let mut out: BTreeMap<u16, IndexRaw> = BTreeMap::new();
    let mut prev: Option<Vec<u8>> = None;
    for (k, v) in dump {
        if let Some(p) = &prev {
            if p >= k {
                // LMDB guarantees this; if it fails the dump itself is wrong.
                out.entry(0).or_default().problems.push("dump keys not strictly ascending".into());
            }
        }
        prev = Some(k.clone());
        let key = match decode_key(k) {
            Ok(k) => k,
            Err(e) => {
                let idx = if k.len() >= 2 { u16::from_be_bytes([k[0], k[1]]) } else { 0 };
                out.entry(idx).or_default().problems.push(e);
                continue;
            }
        };
        let ir = out.entry(key.index).or_default();
        match key.kind {
            KIND_METADATA => match key.id {
                0 => match decode_meta(v) {
                    Ok(m) => ir.meta = Some(m),
                    Err(e) => ir.problems.push(e),
                },
                1 => {
                    if v.len() == 12 {
                        let f = |i: usize| u32::from_be_bytes([v[i], v[i + 1], v[i + 2], v[i + 3]]);
                        ir.version = Some([f(0), f(4), f(8)]);
                    } else {
                        ir.problems.push(format!("version record of {} bytes", v.len()));
                    }
                }
                other => ir.problems.push(format!("metadata key with id {other}")),
            },
            KIND_UPDATED => {
                if !v.is_empty() {
                    ir.problems.push(format!("updated mark {} with a non-empty value", key.id));
                }
                ir.updated.insert(key.id);
            }
            KIND_TREE => match decode_tree_node(v) {
                Ok(n) => {
                    ir.nodes.insert(key.id, n);
                }
                Err(e) => ir.problems.push(format!("tree {}: {e}", key.id)),
            },
            KIND_ITEM => {
                if v.first() != Some(&0) {
                    ir.problems.push(format!("item {} holds a value with tag {:?}", key.id, v.first()));
                    continue;
                }
                let hl = metric_of(key.index).map(|m| m.header_len()).unwrap_or(4);
                if v.len() < 1 + hl {
                    ir.problems.push(format!("item {}: truncated leaf", key.id));
                    continue;
                }
                ir.leaves.insert(key.id, LeafRaw { header: v[1..1 + hl].to_vec(), vector: v[1 + hl..].to_vec() });
            }
            _ => unreachable!(),
        }
    }
    out
}

/// Decode vector bytes under a metric: f32 list for f32 metrics, ±1.0 list (all padded
/// positions included) for the quantised ones.
pub fn decode_vector(m: Metric, bytes: &[u8]) -> Result<Vec<f32>, String> {
    if m.is_bq() {
        if bytes.len() % 8 != 0 {
            return Err(format!("quantised vector of {} bytes", bytes.len()));
        }
        let mut out = Vec::with_capacity(bytes.len() * 8);
        for w in bytes.chunks_exact(8) {
            let word = u64::from_ne_bytes(w.try_into().unwrap());
            for j in 0..64 {
                out.push(if (word >> j) & 1 == 1 { 1.0 } else { -1.0 });
            }
        }
        Ok(out)
    } else {
        if bytes.len() % 4 != 0 {
            return Err(format!("f32 vector of {} bytes", bytes.len()));
        }
        Ok(bytes.chunks_exact(4).map(|c| f32::from_ne_bytes(c.try_into().unwrap())).collect())
    }
}

/// Is the plane degenerate (Appendix A): all components == 0.0 (f32) or all bytes zero (bq).
pub fn normal_is_zero(m: Metric, bytes: &[u8]) -> bool {
    if m.is_bq() {
        bytes.iter().all(|b| *b == 0)
    } else {
        bytes.chunks_exact(4).all(|c| f32::from_ne_bytes(c.try_into().unwrap()) == 0.0)
    }
}

/// Margin of an item against a plane, as (sign class, decided?) computed in f64 with a guard band.
/// Returns 1 = Left (negative), 2 = Right (positive), 0 = undecided (within the rounding guard band),
/// 3 = non-finite (NaN / infinite / overflow-prone products).
pub fn margin_side(m: Metric, normal: &[u8], item_vec: &[u8]) -> u8 {
    if m.is_bq() {
        // dot_product_binary_quantized: over all stored bits (padding included): agreements - disagreements
        if normal.len() != item_vec.len() {
            return 0;
        }
        let mut agree: i64 = 0;
        let mut dis: i64 = 0;
        for (a, b) in normal.iter().zip(item_vec) {
            let x = a ^ b;
            dis += x.count_ones() as i64;
            agree += x.count_zeros() as i64;
        }
        let dot = agree - dis;
        if dot > 0 {
            2
        } else if dot < 0 {
            1
        } else {
            0
        }
    } else {
        if normal.len() != item_vec.len() || normal.len() % 4 != 0 {
            return 0;
        }
        let mut sum = 0f64;
        let mut mag = 0f64;
        let n = (normal.len() / 4) as f64;
        for (a, b) in normal.chunks_exact(4).zip(item_vec.chunks_exact(4)) {
            let x = f32::from_ne_bytes(a.try_into().unwrap()) as f64;
            let y = f32::from_ne_bytes(b.try_into().unwrap()) as f64;
            sum += x * y;
            mag += (x * y).abs();
        }
        if !sum.is_finite() || !mag.is_finite() || mag > (f32::MAX as f64) / 4.0 {
            // f32 partial sums may overflow or be NaN: the sign arroy sees is not determined by the f64 sum,
            // and a NaN margin disorders the search queue (class 3 = "non-finite")
            return 3;
        }
        // worst-case f32 summation error (any order, FMA or not): (n + 2) * 2^-23 * sum |x_i y_i|, doubled
        // for slack, plus the absolute error of products that underflow in f32 (2^-149 each).
        let bound = 2.0 * (n + 2.0) * (f32::EPSILON as f64) * mag + (n + 1.0) * 2.9e-45;
        if sum > bound {
            2
        } else if sum < -bound {
            1
        } else {
            0
        }
    }
}
