//! Seeded random history generators ("drivers"). Every choice derives from the seed.

use rand::rngs::StdRng;
use rand::seq::SliceRandom;
use rand::{Rng, SeedableRng};

use crate::hist::{bits, BuildOpts, History, IndexDecl, Op};
use crate::metric::{Metric, ALL_METRICS};

pub const ID_POOL: [u32; 16] = [0, 1, 2, 3, 4, 5, 6, 7, 8, 9, 255, 256, 65536, 1 << 31, u32::MAX - 1, u32::MAX];

pub const INDEX_PAIRS: [[u16; 2]; 6] = [[0, 1], [0, 65535], [65534, 65535], [255, 256], [1, 2], [7, 300]];

#[derive(Clone, Debug)]
pub struct Profile {
    pub name: &'static str,
    pub max_ids: usize,
    pub rounds: (usize, usize),
    pub ops_per_round: (usize, usize),
    pub dims: &'static [usize],
    pub metrics: &'static [Metric],
    pub multi_index: f64,
    pub special_values: f64,
    pub p_clear: f64,
    pub p_append: f64,
    pub p_bad_dim: f64,
    pub p_change_metric: f64,
    pub p_commit: f64,
    pub p_abort: f64,
    pub p_search: f64,
    pub p_build_mid: f64,
    pub n_trees: &'static [Option<usize>],
    pub split_after: &'static [Option<usize>],
    pub mem: &'static [Option<usize>],
    pub grid_vectors: f64,
    pub const_cap: f64,
}

pub static SINGLE_METRIC: [[Metric; 1]; 7] = [
    [Metric::Euclidean],
    [Metric::Manhattan],
    [Metric::Cosine],
    [Metric::DotProduct],
    [Metric::BqEuclidean],
    [Metric::BqManhattan],
    [Metric::BqCosine],
];

pub const F32_METRICS: [Metric; 4] = [Metric::Euclidean, Metric::Manhattan, Metric::Cosine, Metric::DotProduct];

pub fn profile(name: &str) -> Profile {
    let base = Profile {
        name: "forest",
        max_ids: 12,
        rounds: (2, 5),
        ops_per_round: (0, 14),
        dims: &[1, 2, 2, 2, 3, 3, 5, 17, 130],
        metrics: &ALL_METRICS,
        multi_index: 0.25,
        special_values: 0.02,
        p_clear: 0.01,
        p_append: 0.03,
        p_bad_dim: 0.0,
        p_change_metric: 0.0,
        p_commit: 0.3,
        p_abort: 0.05,
        p_search: 0.0,
        p_build_mid: 0.0,
        n_trees: &[None, None, Some(1), Some(2), Some(3), Some(5)],
        split_after: &[None, None, None, Some(1), Some(2), Some(3), Some(5), Some(20)],
        mem: &[None, None, None, Some(0), Some(4096), Some(1 << 30)],
        grid_vectors: 0.3,
        const_cap: 0.5,
    };
    match name {
        "forest" => base,
        "store" => Profile {
            name: "store",
            rounds: (1, 4),
            ops_per_round: (2, 10),
            special_values: 0.45,
            p_clear: 0.04,
            p_append: 0.12,
            p_bad_dim: 0.1,
            p_commit: 0.5,
            p_abort: 0.25,
            p_build_mid: 0.1,
            multi_index: 0.4,
            dims: &[1, 2, 3, 5, 8, 63, 64, 65, 70],
            ..base
        },
        "multi" => Profile {
            name: "multi",
            multi_index: 1.0,
            p_clear: 0.06,
            p_append: 0.08,
            p_change_metric: 0.06,
            p_commit: 0.4,
            p_abort: 0.15,
            rounds: (2, 4),
            ops_per_round: (1, 8),
            max_ids: 8,
            ..base
        },
        "metric" => Profile {
            name: "metric",
            p_change_metric: 0.12,
            dims: &[3, 5, 64, 70, 2],
            multi_index: 0.5,
            rounds: (2, 5),
            ops_per_round: (0, 8),
            max_ids: 9,
            p_search: 0.3,
            ..base
        },
        "bqmetric" => Profile {
            // C12 end to end: quantised indexes, metric changes between the quantised metrics (same leaf layout,
            // different header meaning) and to/from Cosine, searched after every build
            name: "bqmetric",
            metrics: &[Metric::BqEuclidean, Metric::BqManhattan, Metric::BqCosine, Metric::BqCosine, Metric::Cosine],
            p_change_metric: 0.15,
            dims: &[3, 5, 32, 64, 70],
            multi_index: 0.2,
            rounds: (2, 5),
            ops_per_round: (1, 8),
            max_ids: 10,
            p_search: 0.7,
            ..base
        },
        "search" => Profile {
            name: "search",
            p_search: 1.0,
            rounds: (1, 3),
            ops_per_round: (3, 14),
            multi_index: 0.1,
            dims: &[1, 2, 3, 5, 17, 31, 32, 33, 40, 48, 57, 64, 95, 130],
            p_commit: 0.2,
            p_abort: 0.0,
            ..base
        },
        "options" => Profile {
            name: "options",
            dims: &[1, 1, 2, 3, 4, 5, 8, 130],
            rounds: (3, 6),
            ops_per_round: (0, 10),
            p_search: 0.5,
            n_trees: &[None, None, Some(1), Some(5), Some(2), Some(3), Some(20), Some(6), Some(7), Some(8), Some(9), Some(17)],
            split_after: &[None, None, Some(1), Some(2), Some(4), Some(7), Some(50)],
            const_cap: 0.8,
            ..base
        },
        "parallel" => Profile {
            name: "parallel",
            n_trees: &[Some(8), Some(12), Some(20), Some(9)],
            split_after: &[Some(1), Some(2), Some(1), None],
            dims: &[2, 3, 5],
            rounds: (2, 4),
            ops_per_round: (2, 12),
            multi_index: 0.1,
            p_commit: 0.3,
            p_abort: 0.0,
            ..base
        },
        other => panic!("unknown profile {other}"),
    }
}

const SPECIALS: [u32; 14] = [
    0x0000_0000, // +0
    0x8000_0000, // -0
    0x7fc0_0000, // +qNaN
    0xffc0_0001, // -NaN with payload
    0x7f80_0001, // sNaN
    0x7f80_0000, // +inf
    0xff80_0000, // -inf
    0x0000_0001, // smallest subnormal
    0x8000_0001,
    0x007f_ffff, // largest subnormal
    0x7f7f_ffff, // f32::MAX
    0xff7f_ffff,
    0x3f80_0000, // 1.0
    0xbf80_0000,
];

pub fn gen_vector(rng: &mut StdRng, dim: usize, p: &Profile, grid: bool) -> Vec<u32> {
    // now and then a whole vector is scaled far down or up: margins and distances then live at
    // magnitudes where absolute thresholds (epsilons) in the code would matter
    let scale: f32 = if rng.gen_bool(0.07) { *[1e-8f32, 1e-12, 1e-5, 1e6].choose(rng).unwrap() } else { 1.0 };
    (0..dim)
        .map(|_| {
            if rng.gen_bool(p.special_values) {
                *SPECIALS.choose(rng).unwrap()
            } else if grid {
                (rng.gen_range(-2i32..=2) as f32 * scale).to_bits()
            } else {
                (rng.gen_range(-1.0f32..1.0) * scale).to_bits()
            }
        })
        .collect()
}

pub fn gen_history(seed: u64, p: &Profile) -> History {
    let mut rng = StdRng::seed_from_u64(seed);
    let multi = rng.gen_bool(p.multi_index);
    let idxs: Vec<u16> = if multi {
        let pair = INDEX_PAIRS.choose(&mut rng).unwrap();
        let mut v = pair.to_vec();
        if rng.gen_bool(0.2) {
            let extra = rng.gen::<u16>();
            if !v.contains(&extra) {
                v.push(extra);
            }
        }
        v
    } else {
        vec![*[0u16, 0, 0, 1, 65535, 256].choose(&mut rng).unwrap()]
    };
    let indexes: Vec<IndexDecl> = idxs
        .iter()
        .map(|i| IndexDecl { idx: *i, metric: *p.metrics.choose(&mut rng).unwrap(), dim: *p.dims.choose(&mut rng).unwrap() })
        .collect();
    let nids = rng.gen_range(2..=p.max_ids);
    let mut pool: Vec<u32> = ID_POOL.to_vec();
    pool.shuffle(&mut rng);
    pool.truncate(nids);
    let grid = rng.gen_bool(p.grid_vectors);
    let const_cap = rng.gen_bool(p.const_cap);
    let fixed_split: Vec<Option<usize>> = indexes.iter().map(|_| *p.split_after.choose(&mut rng).unwrap()).collect();
    let mut metrics: Vec<Metric> = indexes.iter().map(|d| d.metric).collect();

    let mut ops = Vec::new();
    // the vector last written under (index position, id): some overwrites are derived from it
    let mut last: std::collections::HashMap<(usize, u32), Vec<u32>> = std::collections::HashMap::new();
    let rounds = rng.gen_range(p.rounds.0..=p.rounds.1);
    for _ in 0..rounds {
        let nops = rng.gen_range(p.ops_per_round.0..=p.ops_per_round.1);
        let mut touched: Vec<usize> = Vec::new();
        for _ in 0..nops {
            let which = rng.gen_range(0..indexes.len());
            let d = &indexes[which];
            if !touched.contains(&which) {
                touched.push(which);
            }
            let id = *pool.choose(&mut rng).unwrap();
            let x: f64 = rng.gen();
            let mut acc = 0.0;
            let mut pick = |w: f64| {
                acc += w;
                x < acc
            };
            if pick(p.p_clear) {
                ops.push(Op::Clear { idx: d.idx });
            } else if pick(p.p_change_metric) {
                let to = *p.metrics.choose(&mut rng).unwrap();
                ops.push(Op::ChangeMetric { idx: d.idx, to });
                metrics[which] = to;
            } else if pick(p.p_bad_dim) {
                let lens = [0usize, d.dim.saturating_sub(1), d.dim + 1, 4 * d.dim, 1000];
                let len = *lens.choose(&mut rng).unwrap();
                let v = gen_vector(&mut rng, len, p, grid);
                if rng.gen_bool(0.5) {
                    ops.push(Op::Add { idx: d.idx, id, v });
                } else {
                    ops.push(Op::Append { idx: d.idx, id, v });
                }
            } else if pick(p.p_append) {
                ops.push(Op::Append { idx: d.idx, id, v: gen_vector(&mut rng, d.dim, p, grid) });
            } else if pick(p.p_commit * 0.1) {
                ops.push(Op::Commit);
            } else if pick(p.p_abort * 0.1) {
                ops.push(Op::Abort);
            } else if pick(p.p_build_mid) {
                ops.push(Op::Build { idx: d.idx, o: gen_opts(&mut rng, p, const_cap, fixed_split[which]) });
            } else if pick(0.27) {
                ops.push(Op::Del { idx: d.idx, id });
            } else {
                // now and then an overwrite by a vector that the metric cannot tell from the old one although it points
                // elsewhere: a quarter turn in the first two coordinates (inner product exactly 0), or a scaled copy
                let derived = match last.get(&(which, id)) {
                    Some(old) if d.dim >= 2 && rng.gen_bool(0.08) => {
                        let o = crate::hist::unbits(old);
                        let mut n = vec![0.0f32; d.dim];
                        if rng.gen_bool(0.7) {
                            n[0] = -o[1];
                            n[1] = o[0];
                        } else {
                            let k = [2.0f32, 0.5, -1.0][rng.gen_range(0..3)];
                            for j in 0..d.dim {
                                n[j] = o[j] * k;
                            }
                        }
                        Some(crate::hist::bits(&n))
                    }
                    _ => None,
                };
                let v = derived.unwrap_or_else(|| gen_vector(&mut rng, d.dim, p, grid));
                last.insert((which, id), v.clone());
                ops.push(Op::Add { idx: d.idx, id, v });
            }
        }
        // build every index that was touched (or a random one), in random order
        if touched.is_empty() || rng.gen_bool(0.3) {
            let w = rng.gen_range(0..indexes.len());
            if !touched.contains(&w) {
                touched.push(w);
            }
        }
        touched.shuffle(&mut rng);
        for which in touched {
            let d = &indexes[which];
            ops.push(Op::Build { idx: d.idx, o: gen_opts(&mut rng, p, const_cap, fixed_split[which]) });
            if rng.gen_bool(p.p_search) {
                ops.push(Op::Search { idx: d.idx, seed: rng.gen() });
            }
        }
        // a metric change of a freshly built index followed at once by a build, no item touched in between
        // (no pending mark: everything the build needs to know is that the metadata is gone)
        if p.p_change_metric > 0.0 && rng.gen_bool(0.3) {
            let which = rng.gen_range(0..indexes.len());
            let d = &indexes[which];
            let to = *p.metrics.choose(&mut rng).unwrap();
            ops.push(Op::ChangeMetric { idx: d.idx, to });
            metrics[which] = to;
            let mut o = gen_opts(&mut rng, p, const_cap, fixed_split[which]);
            if rng.gen_bool(0.6) {
                o.n_trees = None;
            }
            ops.push(Op::Build { idx: d.idx, o });
            if rng.gen_bool(p.p_search) {
                ops.push(Op::Search { idx: d.idx, seed: rng.gen() });
            }
        }
        let x: f64 = rng.gen();
        if x < p.p_commit {
            ops.push(Op::Commit);
        } else if x < p.p_commit + p.p_abort {
            ops.push(Op::Abort);
            // the round and its builds are gone; sometimes the very next thing is a build of the same index followed by
            // a commit, with no update in between (what a long-lived Writer remembers of the aborted build is wrong now)
            if rng.gen_bool(0.5) {
                let which = rng.gen_range(0..indexes.len());
                let d = &indexes[which];
                ops.push(Op::Build { idx: d.idx, o: gen_opts(&mut rng, p, const_cap, fixed_split[which]) });
                ops.push(Op::Commit);
            }
        }
    }
    History { indexes, ops, map_size: 256 * 1024 * 1024, label: format!("{}:{}", p.name, seed), faults: vec![], max_polls: 5_000_000, sides: true }
}

pub fn gen_opts(rng: &mut StdRng, p: &Profile, const_cap: bool, fixed: Option<usize>) -> BuildOpts {
    BuildOpts {
        n_trees: *p.n_trees.choose(rng).unwrap(),
        split_after: if const_cap { fixed } else { *p.split_after.choose(rng).unwrap() },
        mem: *p.mem.choose(rng).unwrap(),
        threads: 1,
        seed: rng.gen(),
        cancel_at: None,
        tmpdir: None,
        retry_same_builder: false,
        map_free_pages: None,
    }
}

/// a tiny hand-written straight-line history (the first thing every validator is tried on)
pub fn straight_line() -> History {
    let v = |a: f32, b: f32| bits(&[a, b]);
    History {
        indexes: vec![IndexDecl { idx: 0, metric: Metric::Euclidean, dim: 2 }],
        ops: vec![
            Op::Add { idx: 0, id: 0, v: v(0.0, 0.0) },
            Op::Add { idx: 0, id: 1, v: v(1.0, 0.0) },
            Op::Add { idx: 0, id: 2, v: v(0.0, 1.0) },
            Op::Add { idx: 0, id: 3, v: v(1.0, 1.0) },
            Op::Add { idx: 0, id: 4, v: v(0.5, 0.25) },
            Op::Build { idx: 0, o: BuildOpts { n_trees: Some(2), ..Default::default() } },
            Op::Search { idx: 0, seed: 1 },
            Op::Commit,
            Op::Del { idx: 0, id: 2 },
            Op::Add { idx: 0, id: 7, v: v(-1.0, 0.5) },
            Op::Build { idx: 0, o: BuildOpts { n_trees: Some(2), ..Default::default() } },
            Op::Commit,
        ],
        map_size: 64 * 1024 * 1024,
        label: "straight-line".into(),
        faults: vec![],
        max_polls: 5_000_000,
        sides: true,
    }
}
