//! C13: the real `ConcurrentNodeIds::next()` on real threads under a token-passing scheduler.
//! Hook H1 turns every atomic operation into a yield point; the controller decides which thread
//! performs the next atomic step, so interleavings are enumerated (depth-first, by re-execution)
//! or sampled, and each complete schedule is recorded as one trace line.

use std::sync::mpsc::{channel, Receiver, Sender};
use std::sync::Arc;

use arroy::internals::ConcurrentNodeIds;
use rand::rngs::StdRng;
use rand::{Rng, SeedableRng};
use roaring::RoaringBitmap;
use serde_json::{json, Value};

enum Msg {
    AtYield { t: usize, op: String },
    Ret { t: usize, id: Option<u32> },
    Done { t: usize },
}

pub struct RunOut {
    pub line: Value,
    /// number of enabled threads at each step (for the DFS)
    pub alts: Vec<usize>,
    pub choices: Vec<usize>,
}

/// Runs one schedule. `choose(step, n_enabled) -> index` picks among the enabled threads (ascending ids).
pub fn run_schedule(used: &[u32], reqs: &[usize], choose: &mut dyn FnMut(usize, usize) -> usize, n: usize) -> RunOut {
    let bitmap: RoaringBitmap = used.iter().copied().collect();
    let ids = Arc::new(ConcurrentNodeIds::new(bitmap));
    let (tx, rx): (Sender<Msg>, Receiver<Msg>) = channel();
    let mut gos: Vec<Sender<()>> = Vec::new();
    let mut handles = Vec::new();
    for (t, r) in reqs.iter().enumerate() {
        let (gtx, grx) = channel::<()>();
        gos.push(gtx);
        let tx = tx.clone();
        let ids = ids.clone();
        let r = *r;
        handles.push(std::thread::spawn(move || {
            let txy = tx.clone();
            arroy::verif::set_yield_point(Some(Box::new(move |ty, op| {
                txy.send(Msg::AtYield { t, op: format!("{ty}.{op}") }).unwrap();
                grx.recv().unwrap();
            })));
            for _ in 0..r {
                let id = std::panic::catch_unwind(std::panic::AssertUnwindSafe(|| ids.next())).ok().and_then(|r| r.ok());
                tx.send(Msg::Ret { t, id }).unwrap();
            }
            arroy::verif::set_yield_point(None);
            tx.send(Msg::Done { t }).unwrap();
        }));
    }
    drop(tx);
    let nt = reqs.len();
    // pending[t] = Some(op) when thread t waits at a yield point
    let mut pending: Vec<Option<String>> = vec![None; nt];
    let mut done = vec![false; nt];
    let mut rets: Vec<Value> = Vec::new();
    let mut total = 0usize;
    // every thread sends exactly one AtYield or Done before blocking
    let mut settle = |pending: &mut Vec<Option<String>>, done: &mut Vec<bool>, rets: &mut Vec<Value>, who: Option<usize>, rx: &Receiver<Msg>| {
        // wait until `who` (or every thread when None) is parked or finished
        let mut waiting: Vec<usize> = match who {
            Some(t) => vec![t],
            None => (0..nt).collect(),
        };
        while !waiting.is_empty() {
            match rx.recv().unwrap() {
                Msg::AtYield { t, op } => {
                    pending[t] = Some(op);
                    waiting.retain(|x| *x != t);
                }
                Msg::Ret { t, id } => {
                    rets.push(json!([t as i64 + 1, id.map(|x| x as i64).unwrap_or(-1)]));
                }
                Msg::Done { t } => {
                    done[t] = true;
                    waiting.retain(|x| *x != t);
                }
            }
        }
    };
    settle(&mut pending, &mut done, &mut rets, None, &rx);
    let mut steps: Vec<Value> = Vec::new();
    let mut alts = Vec::new();
    let mut choices = Vec::new();
    loop {
        let enabled: Vec<usize> = (0..nt).filter(|t| pending[*t].is_some()).collect();
        if enabled.is_empty() {
            break;
        }
        let c = choose(steps.len(), enabled.len()).min(enabled.len() - 1);
        alts.push(enabled.len());
        choices.push(c);
        let t = enabled[c];
        let op = pending[t].take().unwrap();
        gos[t].send(()).unwrap();
        settle(&mut pending, &mut done, &mut rets, Some(t), &rx);
        let (cur, cnt, sel, look) = ids.verif_state();
        steps.push(json!([t as i64 + 1, op, cur as i64, cnt as i64, sel as i64, look as i64]));
    }
    for h in handles {
        h.join().unwrap();
    }
    for r in reqs {
        total += r;
    }
    RunOut {
        line: json!({"ev":"Sched","n": n as i64, "used": used.iter().map(|x| *x as i64).collect::<Vec<_>>(),
            "reqs": reqs.iter().map(|x| *x as i64).collect::<Vec<_>>(), "steps": steps, "rets": rets, "total": total as i64}),
        alts,
        choices,
    }
}

/// depth-first enumeration of every interleaving, by re-execution; stops after `limit` schedules
pub fn explore_all(used: &[u32], reqs: &[usize], limit: usize, out: &mut Vec<Value>, first_n: usize) -> (usize, bool) {
    let mut prefix: Vec<usize> = Vec::new();
    let mut count = 0;
    loop {
        let p = prefix.clone();
        let mut choose = |step: usize, _n: usize| if step < p.len() { p[step] } else { 0 };
        let r = run_schedule(used, reqs, &mut choose, first_n + count);
        out.push(r.line);
        count += 1;
        // next prefix: deepest position that still has an untried alternative
        let mut k = r.choices.len();
        let mut next = None;
        while k > 0 {
            k -= 1;
            if r.choices[k] + 1 < r.alts[k] {
                let mut np = r.choices[..k].to_vec();
                np.push(r.choices[k] + 1);
                next = Some(np);
                break;
            }
        }
        match next {
            Some(np) if count < limit => prefix = np,
            Some(_) => return (count, false),
            None => return (count, true),
        }
    }
}

pub fn explore_random(used: &[u32], reqs: &[usize], n: usize, seed: u64, out: &mut Vec<Value>, first_n: usize) -> usize {
    let mut rng = StdRng::seed_from_u64(seed);
    for k in 0..n {
        let mut choose = |_step: usize, m: usize| rng.gen_range(0..m);
        let r = run_schedule(used, reqs, &mut choose, first_n + k);
        out.push(r.line);
    }
    n
}
