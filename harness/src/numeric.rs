//! C12 (binary quantisation) and C11 (distance kernels): cases whose expected value is an exact
//! integer / rational that the TLA+ specification recomputes (BQ.tla, Kernels.tla).

use std::borrow::Cow;

use arroy::internals::{Leaf, UnalignedVector};
use arroy::Distance;
use heed::types::Bytes;
use rand::rngs::StdRng;
use rand::{Rng, SeedableRng};
use serde_json::{json, Value};

use crate::decode;
use crate::exec::{dump, open_env, work_tmp, RawDb};
use crate::metric::Metric;
use crate::search::{run_query, QOpts};
use crate::with_metric;

// ------------------------------------------------------------------------------------------ C12

/// a component with the wanted sign bit, drawn from {+-0.0, tiny, 1, inf, NaN}
fn comp(positive: bool, rng: &mut StdRng) -> f32 {
    let mags = [0.0f32, f32::from_bits(1), 1e-30, 1.0, 37.5, f32::MAX, f32::INFINITY, f32::NAN];
    let m = mags[rng.gen_range(0..mags.len())];
    let v = if positive { m } else { -m };
    // -NaN / +NaN: make sure the sign bit is what we want
    if v.is_sign_positive() != positive {
        f32::from_bits(v.to_bits() ^ 0x8000_0000)
    } else {
        v
    }
}

fn signs_of(v: &[f32]) -> Vec<i64> {
    v.iter().map(|x| if *x > 0.0 { 1 } else if *x < 0.0 { 0 } else { 2 }).collect()
}

fn micro(d: f32) -> i64 {
    if d.is_finite() {
        (d as f64 * 1e6).round() as i64
    } else {
        -1
    }
}

fn bq_direct<D: Distance<VectorCodec = arroy_bq::BinaryQuantized>>(a: &[f32], b: &[f32], d: usize) -> (f32, f32) {
    let va: Cow<UnalignedVector<D::VectorCodec>> = UnalignedVector::from_slice(a);
    let vb: Cow<UnalignedVector<D::VectorCodec>> = UnalignedVector::from_slice(b);
    let la = Leaf::<D> { header: D::new_header(&va), vector: va };
    let lb = Leaf::<D> { header: D::new_header(&vb), vector: vb };
    (D::normalized_distance(D::built_distance(&la, &lb), d), D::normalized_distance(D::built_distance(&lb, &la), d))
}

mod arroy_bq {
    // the codec marker type is reachable only through the Distance trait's associated type
    pub type BinaryQuantized = <arroy::distances::BinaryQuantizedEuclidean as arroy::Distance>::VectorCodec;
}

pub fn bq_cases(seed: u64, thorough: bool, out: &mut Vec<Value>) -> usize {
    let mut rng = StdRng::seed_from_u64(seed);
    let mut n = 0;
    let dims: Vec<usize> = (1..=300).collect();
    for d in dims {
        // patterns: exhaustive for d <= (12 | 8), boundary templates and random beyond
        let mut pats: Vec<Vec<bool>> = Vec::new();
        let ex = if thorough { 12 } else { 7 };
        if d <= ex {
            for m in 0..(1u32 << d) {
                pats.push((0..d).map(|i| (m >> i) & 1 == 1).collect());
            }
        } else {
            pats.push(vec![true; d]);
            pats.push(vec![false; d]);
            pats.push((0..d).map(|i| i % 2 == 0).collect());
            pats.push((0..d).map(|i| i == d - 1).collect());
            pats.push((0..d).map(|i| i % 64 == 63 || i % 64 == 0).collect());
            for _ in 0..(if thorough { 6 } else { 2 }) {
                pats.push((0..d).map(|_| rng.gen()).collect());
            }
        }
        let vecs: Vec<Vec<f32>> = pats.iter().map(|p| p.iter().map(|b| comp(*b, &mut rng)).collect()).collect();
        // conversion paths
        let mut conv = Vec::new();
        for (p, v) in pats.iter().zip(&vecs) {
            let a: Cow<UnalignedVector<arroy_bq::BinaryQuantized>> = UnalignedVector::from_slice(v);
            let b: Cow<UnalignedVector<arroy_bq::BinaryQuantized>> = UnalignedVector::from_vec(v.clone());
            let to_vec = a.to_vec();
            let iter: Vec<f32> = a.iter().collect();
            let to_vec_b = b.to_vec();
            conv.push(json!({
                "signs": p.iter().map(|x| *x as i64).collect::<Vec<_>>(),
                "to_vec": signs_of(&to_vec), "iter": signs_of(&iter), "from_vec": signs_of(&to_vec_b),
                "len": a.len() as i64,
            }));
        }
        // keep the event small: at most 24 conversions logged in full per dimension, the rest summarised by the harness? no:
        // every conversion is logged, but large dimensions only carry a few patterns
        // distances on pairs (all pairs for small sets, sampled otherwise)
        let mut pairs = Vec::new();
        let np = vecs.len();
        let mut idxs: Vec<(usize, usize)> = Vec::new();
        if np <= 16 {
            for i in 0..np {
                for j in 0..np {
                    idxs.push((i, j));
                }
            }
        } else {
            for _ in 0..(if thorough { 200 } else { 60 }) {
                idxs.push((rng.gen_range(0..np), rng.gen_range(0..np)));
            }
            idxs.push((0, 0));
        }
        for (i, j) in idxs {
            let h = pats[i].iter().zip(&pats[j]).filter(|(a, b)| a != b).count() as i64;
            let (e1, e2) = bq_direct::<arroy::distances::BinaryQuantizedEuclidean>(&vecs[i], &vecs[j], d);
            let (m1, m2) = bq_direct::<arroy::distances::BinaryQuantizedManhattan>(&vecs[i], &vecs[j], d);
            let (c1, c2) = bq_direct::<arroy::distances::BinaryQuantizedCosine>(&vecs[i], &vecs[j], d);
            pairs.push(json!([h, micro(e1), micro(e2), micro(m1), micro(m2), micro(c1), micro(c2)]));
        }
        out.push(json!({"ev":"BQ","h": d as i64,"k":0,"d": d as i64,"conv": conv,"pairs": pairs}));
        n += 1;
    }
    // end to end through LMDB for a few dimensions and every metric: stored words, read back, query distances
    for d in [1usize, 5, 63, 64, 65, 70, 128, 130] {
        for metric in [Metric::BqEuclidean, Metric::BqManhattan, Metric::BqCosine] {
            let dir = tempfile::tempdir_in(work_tmp()).unwrap();
            let env = open_env(dir.path(), 64 * 1024 * 1024);
            let mut w = env.write_txn().unwrap();
            let db: RawDb = env.create_database::<Bytes, Bytes>(&mut w, None).unwrap();
            let k = 9usize;
            let pats: Vec<Vec<bool>> = (0..k).map(|_| (0..d).map(|_| rng.gen()).collect()).collect();
            let vecs: Vec<Vec<f32>> = pats.iter().map(|p| p.iter().map(|b| comp(*b, &mut rng)).collect()).collect();
            with_metric!(metric, D, {
                let adb: arroy::Database<D> = db.remap_types();
                let wr = arroy::Writer::<D>::new(adb, 0, d);
                for (id, v) in vecs.iter().enumerate() {
                    wr.add_item(&mut w, id as u32, v).unwrap();
                }
                let mut r = StdRng::seed_from_u64(7);
                wr.builder(&mut r).n_trees(2).build(&mut w).unwrap();
            });
            w.commit().unwrap();
            let rtxn = env.read_txn().unwrap();
            let raw = dump(db, &rtxn);
            let dec = decode::decode_dump(&raw, &|_| Some(metric));
            let mut items = Vec::new();
            for (id, p) in pats.iter().enumerate() {
                let leaf = &dec[&0].leaves[&(id as u32)];
                let stored = decode::decode_vector(metric, &leaf.vector).unwrap();
                let back = with_metric!(metric, D, {
                    let adb: arroy::Database<D> = db.remap_types();
                    arroy::Reader::<D>::open(&rtxn, 0, adb).unwrap().item_vector(&rtxn, id as u32).unwrap().unwrap()
                });
                items.push(json!({"signs": p.iter().map(|x| *x as i64).collect::<Vec<_>>(), "stored": signs_of(&stored),
                    "item_vector": signs_of(&back), "words": (leaf.vector.len() / 8) as i64}));
            }
            // by_vector with the first pattern: distances to every item
            let res = run_query(&rtxn, db, 0, metric, None, &vecs[0], &QOpts { count: k, search_k: Some(usize::MAX), over: None }, None);
            let q: Vec<Value> = match res {
                Ok(Some(v)) => v.iter().map(|(id, dist)| {
                    let h = pats[0].iter().zip(&pats[*id as usize]).filter(|(a, b)| a != b).count() as i64;
                    json!([*id as i64, h, micro(*dist)])
                }).collect(),
                _ => vec![json!([-1, -1, -1])],
            };
            out.push(json!({"ev":"BQE2E","h": 1000 + d as i64,"k":0,"d": d as i64,"metric": metric.short(),"items": items,"query": q}));
            n += 1;
        }
    }
    n
}

// ------------------------------------------------------------------------------------------ C11

fn leaf_at<D: Distance<VectorCodec = f32>>(v: &[f32], offset: usize, backing: &mut Vec<u8>) -> Leaf<'static, D> {
    // place the vector bytes at a chosen byte offset inside a buffer, then borrow them unaligned
    backing.clear();
    backing.resize(offset, 0);
    for x in v {
        backing.extend_from_slice(&x.to_ne_bytes());
    }
    let uv = UnalignedVector::<f32>::from_bytes(&backing[offset..]).unwrap();
    let header = D::new_header(&uv);
    Leaf { header, vector: Cow::Owned(uv.into_owned()) }
}

fn kernel_eval<D: Distance<VectorCodec = f32>>(a: &[f32], b: &[f32], offset: usize) -> (f32, f32, f32) {
    // distances are computed on vectors BORROWED at the byte offset (the stored, unaligned form)
    let mut ba = Vec::new();
    let mut bb = Vec::new();
    ba.resize(offset, 0u8);
    bb.resize((offset + 3) % 8, 0u8);
    let oa = ba.len();
    let ob = bb.len();
    for x in a {
        ba.extend_from_slice(&x.to_ne_bytes());
    }
    for x in b {
        bb.extend_from_slice(&x.to_ne_bytes());
    }
    let ua = UnalignedVector::<f32>::from_bytes(&ba[oa..]).unwrap();
    let ub = UnalignedVector::<f32>::from_bytes(&bb[ob..]).unwrap();
    let la = Leaf::<D> { header: D::new_header(&ua), vector: ua };
    let lb = Leaf::<D> { header: D::new_header(&ub), vector: ub };
    let ab = D::built_distance(&la, &lb);
    let ba_ = D::built_distance(&lb, &la);
    let aa = D::built_distance(&la, &la);
    (ab, ba_, aa)
}

fn as_int(x: f32) -> i64 {
    if x.is_finite() && x.fract() == 0.0 && x.abs() < 2.0e9 {
        x as i64
    } else {
        -999_999_999
    }
}

/// exact-arithmetic probe families: small integers, so that every f32 partial sum is exact in any
/// association order; the specification recomputes the expected integer
pub fn kernel_cases(seed: u64, thorough: bool, out: &mut Vec<Value>) -> usize {
    let mut rng = StdRng::seed_from_u64(seed);
    let mut n = 0;
    let _ = leaf_at::<arroy::distances::Euclidean>;
    for len in 1..=300usize {
        let offsets: Vec<usize> = if thorough { (0..8).collect() } else { vec![0, 1 + len % 7] };
        let mut cases = Vec::new();
        for off in offsets {
            // family 1: one-hot pair at positions p, q with values a, b
            for _ in 0..3 {
                let (p, q) = (rng.gen_range(0..len), rng.gen_range(0..len));
                let (a, b) = (rng.gen_range(1..=9) as f32, rng.gen_range(1..=9) as f32);
                let mut u = vec![0f32; len];
                let mut v = vec![0f32; len];
                u[p] = a;
                v[q] = -b;
                cases.push(("onehot", off, u, v, json!([p as i64 + 1, q as i64 + 1, a as i64, -(b as i64)])));
            }
            // last position and first position always
            let mut u = vec![0f32; len];
            let mut v = vec![0f32; len];
            u[len - 1] = 3.0;
            v[len - 1] = 5.0;
            cases.push(("onehot", off, u, v, json!([len as i64, len as i64, 3, 5])));
            // family 2: ramps u_i = i mod 7 - 3, v_i = (i*3) mod 5 - 2 (every index contributes)
            let u: Vec<f32> = (0..len).map(|i| (i % 7) as f32 - 3.0).collect();
            let v: Vec<f32> = (0..len).map(|i| ((i * 3) % 5) as f32 - 2.0).collect();
            cases.push(("ramp", off, u, v, json!([])));
            // family 3: all ones against an index-dependent sign
            let u: Vec<f32> = vec![1.0; len];
            let v: Vec<f32> = (0..len).map(|i| if (i / 3) % 2 == 0 { 1.0 } else { -1.0 }).collect();
            cases.push(("signs", off, u, v, json!([])));
            // family 4: a random small-integer vector (logged in full for short lengths only)
            if len <= 40 {
                let u: Vec<f32> = (0..len).map(|_| rng.gen_range(-4i32..=4) as f32).collect();
                let v: Vec<f32> = (0..len).map(|_| rng.gen_range(-4i32..=4) as f32).collect();
                let p = json!([u.iter().map(|x| *x as i64).collect::<Vec<_>>(), v.iter().map(|x| *x as i64).collect::<Vec<_>>()]);
                cases.push(("explicit", off, u, v, p));
            }
        }
        let mut logged = Vec::new();
        for (fam, off, u, v, params) in cases {
            let (e_ab, e_ba, e_aa) = kernel_eval::<arroy::distances::Euclidean>(&u, &v, off);
            let (m_ab, m_ba, m_aa) = kernel_eval::<arroy::distances::Manhattan>(&u, &v, off);
            let (d_ab, d_ba, _) = kernel_eval::<arroy::distances::DotProduct>(&u, &v, off);
            let (c_ab, c_ba, c_aa) = kernel_eval::<arroy::distances::Cosine>(&u, &v, off);
            // cosine: exact only in the axis-aligned family; logged as millionths with its class
            logged.push(json!({"fam": fam, "off": off as i64, "p": params,
                "euc": [as_int(e_ab), as_int(e_ba), as_int(e_aa)],
                "man": [as_int(m_ab), as_int(m_ba), as_int(m_aa)],
                "dot": [as_int(-d_ab), as_int(-d_ba)],
                "cos": [micro(c_ab), micro(c_ba), micro(c_aa)]}));
        }
        out.push(json!({"ev":"Kernel","h": len as i64,"k":0,"len": len as i64,"cases": logged}));
        n += 1;
    }
    n
}
