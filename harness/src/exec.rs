//! Executes a history against the real arroy and records the abstract trace (Appendix B).
//! Observation is done through (a) the public API and (b) raw `Bytes` dumps decoded by
//! `decode.rs`. Nothing here uses arroy's codecs.

use std::collections::{BTreeMap, BTreeSet, HashMap};
use std::panic::{catch_unwind, AssertUnwindSafe};
use std::sync::atomic::{AtomicU64, Ordering};

use heed::types::Bytes;
use heed::{Env, EnvOpenOptions, RoTxn, RwTxn};
use rand::rngs::StdRng;
use rand::SeedableRng;
use serde_json::{json, Value};

use crate::decode::{self, ChildKind, IndexRaw, RawDump, TreeNode};
use crate::hist::{unbits, BuildOpts, History, Op};
use crate::metric::{represent, Metric, ALL_METRICS};
use crate::search;
use crate::with_metric;

pub type RawDb = heed::Database<Bytes, Bytes>;

pub fn work_tmp() -> std::path::PathBuf {
    let p = std::env::var("VERIF_TMP").unwrap_or_else(|_| "/verif/work/tmp".to_string());
    let p = std::path::PathBuf::from(p);
    std::fs::create_dir_all(&p).ok();
    p
}

pub fn open_env(path: &std::path::Path, map_size: usize) -> Env {
    unsafe { EnvOpenOptions::new().map_size(map_size).max_dbs(4).max_readers(256).open(path) }.expect("open env")
}

pub fn dump(db: RawDb, rtxn: &RoTxn) -> RawDump {
    db.iter(rtxn).unwrap().map(|r| r.unwrap()).map(|(k, v)| (k.to_vec(), v.to_vec())).collect()
}

pub fn slice_index(d: &RawDump, idx: u16) -> Vec<(&[u8], &[u8])> {
    let p = idx.to_be_bytes();
    d.iter().filter(|(k, _)| k.len() >= 2 && k[0..2] == p).map(|(k, v)| (k.as_slice(), v.as_slice())).collect()
}

/// classification of an arroy error / panic into the result classes of Appendix B
pub fn err_class(e: &arroy::Error) -> Value {
    use arroy::Error as E;
    match e {
        E::Heed(heed::Error::Mdb(heed::MdbError::MapFull)) => json!({"c":"MapFull"}),
        E::Heed(heed::Error::Mdb(heed::MdbError::KeyExist)) => json!({"c":"KeyExist"}),
        E::Heed(heed::Error::Io(_)) | E::Io(_) => json!({"c":"Io"}),
        E::Heed(h) => json!({"c":"Heed","msg":format!("{h}")}),
        E::InvalidVecDimension { expected, received } => json!({"c":"DimErr","exp":*expected as i64,"got":*received as i64}),
        E::DatabaseFull => json!({"c":"DatabaseFull"}),
        E::InvalidItemAppend => json!({"c":"AppendErr"}),
        E::UnmatchingDistance { .. } => json!({"c":"UnmatchingDistance"}),
        E::MissingMetadata(_) => json!({"c":"MissingMetadata"}),
        E::NeedBuild(_) => json!({"c":"NeedBuild"}),
        E::BuildCancelled => json!({"c":"Cancelled"}),
        E::MissingKey { mode, item, .. } => json!({"c":"MissingKey","msg":format!("{mode}({item})")}),
        E::CannotDecodeKeyMode { .. } => json!({"c":"CannotDecodeKeyMode"}),
    }
}

pub fn panic_msg(p: Box<dyn std::any::Any + Send>) -> String {
    if let Some(s) = p.downcast_ref::<&str>() {
        s.to_string()
    } else if let Some(s) = p.downcast_ref::<String>() {
        s.clone()
    } else {
        "panic".into()
    }
}

pub fn quiet_panics() {
    if std::env::var("VERIF_DEBUG").is_ok() {
        return;
    }
    std::panic::set_hook(Box::new(|_| {}));
}

/// Projection context of one history: order-preserving ranks for item ids, tokens for vector
/// bit patterns.
pub struct Ctx {
    pub ids: Vec<u32>,
    rank: HashMap<u32, i64>,
    toks: HashMap<Vec<u32>, i64>,
    pub idxs: Vec<u16>,
}

impl Ctx {
    pub fn new(h: &History, extra_ids: &[u32]) -> Ctx {
        let mut s: BTreeSet<u32> = extra_ids.iter().copied().collect();
        for op in &h.ops {
            match op {
                Op::Add { id, .. } | Op::Append { id, .. } | Op::Del { id, .. } => {
                    s.insert(*id);
                }
                Op::AddMany { items, .. } => s.extend(items.iter().map(|x| x.0)),
                Op::DelMany { ids, .. } => s.extend(ids.iter().copied()),
                _ => {}
            }
        }
        let ids: Vec<u32> = s.into_iter().collect();
        let rank = ids.iter().enumerate().map(|(i, id)| (*id, i as i64 + 1)).collect();
        let mut idxs: Vec<u16> = h.indexes.iter().map(|d| d.idx).collect();
        idxs.sort();
        Ctx { ids, rank, toks: HashMap::new(), idxs }
    }
    pub fn rank(&self, id: u32) -> i64 {
        match self.rank.get(&id) {
            Some(r) => *r,
            None => 100_000 + (id % 1_000_000) as i64,
        }
    }
    pub fn irank(&self, idx: u16) -> i64 {
        self.idxs.iter().position(|x| *x == idx).map(|p| p as i64 + 1).unwrap_or(0)
    }
    pub fn tok(&mut self, v: &[f32]) -> i64 {
        let key: Vec<u32> = v.iter().map(|x| x.to_bits()).collect();
        let n = self.toks.len() as i64 + 1;
        *self.toks.entry(key).or_insert(n)
    }
    pub fn n_tokens(&self) -> usize {
        self.toks.len()
    }
}

/// abstract state of one index, from its decoded raw content
pub fn project_index(ctx: &mut Ctx, ir: &IndexRaw, metric: Metric, dim: usize, with_sides: bool) -> Value {
    let mut problems: Vec<String> = ir.problems.clone();
    let mut store = Vec::new();
    let mut leafw_bad = 0;
    let mut hdr_bad = 0;
    for (id, leaf) in &ir.leaves {
        if !header_consistent(metric, &leaf.header, &leaf.vector) {
            hdr_bad += 1;
        }
        let want = metric.vec_len(dim);
        if leaf.vector.len() != want || leaf.header.len() != metric.header_len() {
            leafw_bad += 1;
        }
        match decode::decode_vector(metric, &leaf.vector) {
            Ok(mut v) => {
                if metric.is_bq() && v.len() > dim && v[dim..].iter().any(|x| *x > 0.0) && leaf.vector.len() == want {
                    problems.push(format!("item {id}: quantised padding bits not zero"));
                }
                v.truncate(dim);
                store.push(json!([ctx.rank(*id), ctx.tok(&v)]));
            }
            Err(e) => {
                problems.push(format!("item {id}: {e}"));
                store.push(json!([ctx.rank(*id), 0]));
            }
        }
    }
    let updated: Vec<i64> = ir.updated.iter().map(|id| ctx.rank(*id)).collect();
    let meta = match &ir.meta {
        None => json!({"has": false}),
        Some(m) => json!({
            "has": true,
            "metric": Metric::from_name(&m.metric_name).map(|m| m.short().to_string()).unwrap_or_else(|| format!("?{}", m.metric_name)),
            "dim": m.dim as i64,
            "items": m.items.iter().map(|id| ctx.rank(*id)).collect::<Vec<_>>(),
            "roots": m.roots.iter().map(|r| *r as i64).collect::<Vec<_>>(),
        }),
    };
    let mut nodes = Vec::new();
    for (nid, n) in &ir.nodes {
        match n {
            TreeNode::Bucket { items } => {
                nodes.push(json!({"id": *nid as i64, "tag":"B", "items": items.iter().map(|id| ctx.rank(*id)).collect::<Vec<_>>() }));
            }
            TreeNode::Split { left, right, normal } => {
                let cr = |c: &decode::Child, ctx: &Ctx| match c.kind {
                    ChildKind::Item => json!(["I", ctx.rank(c.id)]),
                    ChildKind::Tree => json!(["T", c.id as i64]),
                };
                let zero = decode::normal_is_zero(metric, normal);
                if normal.len() != metric.vec_len(dim) {
                    problems.push(format!("tree {nid}: normal of {} bytes, expected {}", normal.len(), metric.vec_len(dim)));
                }
                let ms: Vec<i64> = if with_sides {
                    ir.leaves.values().map(|leaf| if zero { 0 } else { decode::margin_side(metric, normal, &leaf.vector) as i64 }).collect()
                } else {
                    Vec::new()
                };
                // the plane itself as a token of its bytes: a phase that rewrites a split must keep its plane
                let pt = {
                    let key: Vec<f32> = normal.iter().map(|b| *b as f32).collect();
                    ctx.tok(&[&[-7.25f32][..], &key[..]].concat())
                };
                nodes.push(json!({"id": *nid as i64, "tag":"S", "l": cr(left, ctx), "r": cr(right, ctx), "zero": zero, "ms": ms, "pt": pt}));
            }
        }
    }
    json!({
        "metric": metric.short(), "dim": dim as i64,
        "store": store, "updated": updated, "meta": meta,
        "version": ir.version.map(|v| json!([v[0] as i64, v[1] as i64, v[2] as i64])).unwrap_or(json!([])),
        "nodes": nodes, "leafw_bad": leafw_bad, "hdr_bad": hdr_bad, "problems": problems,
    })
}

/// The leaf header caches a function of the vector (Appendix A): bias 0 for the (quantised) Euclidean and
/// Manhattan metrics, the norm for the two cosine metrics. DotProduct's header is rewritten at build time from
/// all items and is not checked here.
fn header_consistent(m: Metric, header: &[u8], vector: &[u8]) -> bool {
    if header.len() != m.header_len() {
        return true; // counted as a width problem already
    }
    let h0 = f32::from_ne_bytes(header[0..4].try_into().unwrap());
    match m {
        Metric::Euclidean | Metric::Manhattan | Metric::BqEuclidean | Metric::BqManhattan => h0 == 0.0,
        Metric::Cosine => {
            let Ok(v) = decode::decode_vector(m, vector) else { return true };
            let n2: f64 = v.iter().map(|x| (*x as f64) * (*x as f64)).sum();
            if !n2.is_finite() || n2 > (f32::MAX as f64) / 8.0 || (n2 > 0.0 && n2 < 1e-30) {
                return true; // overflow / underflow zone: no claim
            }
            let want = n2.sqrt();
            ((h0 as f64) - want).abs() <= want * (v.len() as f64 + 8.0) * (f32::EPSILON as f64) + 1e-30
        }
        Metric::BqCosine => {
            let want = ((vector.len() * 8) as f64).sqrt();
            ((h0 as f64) - want).abs() <= want * 4.0 * (f32::EPSILON as f64)
        }
        Metric::DotProduct => {
            // reference layout: [extra_dim, norm]. A leaf that no build has preprocessed yet carries (0, 0); after a build
            // norm = (largest item norm)^2 for every item and extra_dim = sqrt(norm - |v|^2): extra_dim^2 + |v|^2 = norm
            let h1 = f32::from_ne_bytes(header[4..8].try_into().unwrap());
            if h0 == 0.0 && h1 == 0.0 {
                return true;
            }
            let Ok(v) = decode::decode_vector(m, vector) else { return true };
            let n2: f64 = v.iter().map(|x| (*x as f64) * (*x as f64)).sum();
            if !n2.is_finite() || !h0.is_finite() || !h1.is_finite() || n2 > (f32::MAX as f64) / 8.0 || (h1 as f64) > (f32::MAX as f64) / 8.0 {
                return true; // overflow zone: no claim
            }
            let lhs = (h0 as f64) * (h0 as f64) + n2;
            let scale = lhs.max(h1 as f64).max(1e-30);
            h0 >= 0.0 && (lhs - h1 as f64).abs() <= scale * (v.len() as f64 + 16.0) * 4.0 * (f32::EPSILON as f64)
        }
    }
}

fn open_class<D: arroy::Distance>(rtxn: &RoTxn, idx: u16, db: RawDb) -> String {
    let adb: arroy::Database<D> = db.remap_types();
    match catch_unwind(AssertUnwindSafe(|| arroy::Reader::<D>::open(rtxn, idx, adb).map(|_| ()))) {
        Ok(Ok(())) => "Ok".into(),
        Ok(Err(e)) => err_class(&e)["c"].as_str().unwrap().to_string(),
        Err(_) => "Panic".into(),
    }
}

/// API-level observation bundle of one index (C05, C06)
pub fn observe(ctx: &mut Ctx, rtxn: &RoTxn, db: RawDb, idx: u16, metric: Metric, dim: usize) -> Value {
    observe_with(ctx, rtxn, db, idx, metric, dim, None)
}

/// no split node reachable from a root lies on a cycle (arroy's own validator recurses without a bound)
pub fn acyclic(ir: &IndexRaw) -> bool {
    fn go(ir: &IndexRaw, id: u32, depth: usize) -> bool {
        if depth > ir.nodes.len() + 1 {
            return false;
        }
        match ir.nodes.get(&id) {
            Some(decode::TreeNode::Split { left, right, .. }) => [left, right]
                .iter()
                .all(|c| !matches!(c.kind, decode::ChildKind::Tree) || go(ir, c.id, depth + 1)),
            _ => true,
        }
    }
    ir.meta.as_ref().map(|m| m.roots.iter().all(|r| go(ir, *r, 0))).unwrap_or(true)
}

/// `ir`: the decoded index when the caller has it; enables the run of arroy's own validator
pub fn observe_with(ctx: &mut Ctx, rtxn: &RoTxn, db: RawDb, idx: u16, metric: Metric, dim: usize, ir: Option<&IndexRaw>) -> Value {
    let ids = ctx.ids.clone();
    let run_validator = ir.map(acyclic).unwrap_or(false);
    let r = catch_unwind(AssertUnwindSafe(|| {
        with_metric!(metric, D, {
            let adb: arroy::Database<D> = db.remap_types();
            let w = arroy::Writer::<D>::new(adb, idx, dim);
            let mut contains = Vec::new();
            let mut vecs = Vec::new();
            for id in &ids {
                if w.contains_item(rtxn, *id).unwrap() {
                    contains.push(ctx.rank(*id));
                }
                if let Some(v) = w.item_vector(rtxn, *id).unwrap() {
                    vecs.push(json!([ctx.rank(*id), ctx.tok(&v), v.len() as i64]));
                }
            }
            let mut iter = Vec::new();
            let mut iter_err = false;
            for it in w.iter(rtxn).unwrap() {
                match it {
                    Ok((id, v)) => iter.push(json!([ctx.rank(id), ctx.tok(&v), v.len() as i64])),
                    Err(_) => {
                        iter_err = true;
                        break;
                    }
                }
            }
            let empty = w.is_empty(rtxn).unwrap();
            let need_build = w.need_build(rtxn).unwrap();
            let open = open_class::<D>(rtxn, idx, db);
            let mut rd = json!({"has": false});
            if open == "Ok" {
                let reader = arroy::Reader::<D>::open(rtxn, idx, adb).unwrap();
                let mut rcontains = Vec::new();
                let mut rvecs = Vec::new();
                for id in &ids {
                    if reader.contains_item(rtxn, *id).unwrap() {
                        rcontains.push(ctx.rank(*id));
                    }
                    if let Some(v) = reader.item_vector(rtxn, *id).unwrap() {
                        rvecs.push(json!([ctx.rank(*id), ctx.tok(&v), v.len() as i64]));
                    }
                }
                let mut riter = Vec::new();
                for it in reader.iter(rtxn).unwrap() {
                    if let Ok((id, v)) = it {
                        riter.push(json!([ctx.rank(id), ctx.tok(&v), v.len() as i64]));
                    }
                }
                // stats() walks the forest with unwraps: a panic is data
                let stats = catch_unwind(AssertUnwindSafe(|| reader.stats(rtxn))).ok().and_then(|r| r.ok());
                let n_nodes = reader.n_nodes(rtxn).ok().flatten().map(|n| n.get() as i64).unwrap_or(0);
                let total_keys = db.iter(rtxn).map(|it| it.count() as i64).unwrap_or(-1);
                // Reader::assert_validity (feature assert-reader-validity): arroy's own structural check
                let valid = if !run_validator {
                    "skipped"
                } else {
                    match catch_unwind(AssertUnwindSafe(|| reader.assert_validity(rtxn))) {
                        Ok(Ok(())) => "Ok",
                        Ok(Err(_)) => "Err",
                        Err(_) => "Panic",
                    }
                };
                rd = json!({
                    "has": true,
                    "valid": valid,
                    "stats_ok": stats.is_some(),
                    "stats": stats.as_ref().map(|s| s.tree_stats.iter().map(|t| json!([t.depth as i64, t.dummy_normals as i64, t.split_nodes as i64, t.descendants as i64])).collect::<Vec<_>>()).unwrap_or_default(),
                    "stats_leaf": stats.as_ref().map(|s| s.leaf as i64).unwrap_or(-1),
                    "n_nodes": n_nodes, "total_keys": total_keys,
                    "n_items": reader.n_items() as i64,
                    "items": reader.item_ids().iter().map(|id| ctx.rank(id)).collect::<Vec<_>>(),
                    "n_trees": reader.n_trees() as i64,
                    "dim": reader.dimensions() as i64,
                    "empty": reader.is_empty(rtxn).unwrap(),
                    "contains": rcontains, "vecs": rvecs, "iter": riter,
                });
            }
            (contains, vecs, iter, iter_err, empty, need_build, open, rd)
        })
    }));
    let other = ALL_METRICS[(ALL_METRICS.iter().position(|m| *m == metric).unwrap() + 3) % 7];
    let open_other = with_metric!(other, D, { open_class::<D>(rtxn, idx, db) });
    // and under every other metric (opening only reads the metadata): [[metric, result class], ...]
    let open_others: Vec<Value> = ALL_METRICS
        .iter()
        .filter(|m| **m != metric)
        .map(|m| {
            let m = *m;
            json!([m.short(), with_metric!(m, D, { open_class::<D>(rtxn, idx, db) })])
        })
        .collect();
    match r {
        Ok((contains, vecs, iter, iter_err, empty, need_build, open, rd)) => json!({
            "ok": true, "contains": contains, "vecs": vecs, "iter": iter, "iter_err": iter_err,
            "empty": empty, "need_build": need_build, "open": open, "open_other": open_other, "other": other.short(), "open_others": open_others, "rd": rd,
        }),
        Err(p) => json!({"ok": false, "panic": panic_msg(p), "open_other": open_other, "other": other.short(), "open_others": open_others}),
    }
}

pub struct RunCfg {
    /// add the API observation bundle to every event
    pub observe: bool,
    /// log margin sides in Build events
    pub sides: bool,
    /// run the search lattice after successful builds when the op list asks for it
    pub search: bool,
    /// poll watchdog factor (NoProgress when polls exceed this absolute number)
    pub max_polls: u64,
}

impl Default for RunCfg {
    fn default() -> Self {
        RunCfg { observe: true, sides: true, search: true, max_polls: 5_000_000 }
    }
}

#[derive(Default, Debug, Clone)]
pub struct RunStats {
    pub events: usize,
    pub builds_ok: usize,
    pub builds_err: usize,
    pub panics: usize,
    pub nontrivial_builds: usize,
    pub state_hashes: BTreeSet<u64>,
}

fn hash_value(v: &Value) -> u64 {
    use std::hash::{Hash, Hasher};
    let mut h = std::collections::hash_map::DefaultHasher::new();
    v.to_string().hash(&mut h);
    h.finish()
}

pub fn count_fds() -> i64 {
    std::fs::read_dir("/proc/self/fd").map(|d| d.count() as i64).unwrap_or(-1)
}
pub fn count_dir(p: &str) -> i64 {
    std::fs::read_dir(p).map(|d| d.count() as i64).unwrap_or(0)
}

/// Writers kept alive across operations and transactions of one history (an application may well
/// keep its `Writer` around): anything a writer caches must survive commits and aborts correctly.
pub struct WriterPool {
    pub persistent: bool,
    map: HashMap<(u16, Metric), Box<dyn std::any::Any>>,
}

impl WriterPool {
    pub fn new(persistent: bool) -> Self {
        WriterPool { persistent, map: HashMap::new() }
    }
    pub fn with<D: arroy::Distance, R>(&mut self, m: Metric, db: RawDb, idx: u16, dim: usize, f: impl FnOnce(&mut arroy::Writer<D>) -> R) -> R {
        if !self.persistent {
            let mut w = arroy::Writer::<D>::new(db.remap_types(), idx, dim);
            return f(&mut w);
        }
        let e = self.map.entry((idx, m)).or_insert_with(|| Box::new(arroy::Writer::<D>::new(db.remap_types(), idx, dim)));
        f(e.downcast_mut::<arroy::Writer<D>>().expect("writer type"))
    }
    pub fn take<D: arroy::Distance>(&mut self, m: Metric, db: RawDb, idx: u16, dim: usize) -> arroy::Writer<D> {
        match self.map.remove(&(idx, m)) {
            Some(b) if self.persistent => *b.downcast::<arroy::Writer<D>>().expect("writer type"),
            _ => arroy::Writer::<D>::new(db.remap_types(), idx, dim),
        }
    }
    pub fn put<D: arroy::Distance>(&mut self, m: Metric, idx: u16, w: arroy::Writer<D>) {
        if self.persistent {
            self.map.insert((idx, m), Box::new(w));
        }
    }
}

/// where the executor currently is: (history number, op index, inside a build); read by the hang watchdog
pub static PROGRESS: std::sync::Mutex<(i64, i64, bool)> = std::sync::Mutex::new((-1, -1, false));

/// last page number of the environment after each successful commit of the history run last (measuring runs)
pub static PAGES_AFTER_COMMIT: std::sync::Mutex<Vec<u64>> = std::sync::Mutex::new(Vec::new());

static PROGRESS_FILE: std::sync::Mutex<Option<std::fs::File>> = std::sync::Mutex::new(None);

/// records where the executor is; when VERIF_PROGRESS_FILE is set the position is also written to that
/// file (fixed-width line at offset 0), so that the parent can tell which operation killed the process
pub fn mark_progress(hno: usize, k: usize, in_build: bool) {
    *PROGRESS.lock().unwrap() = (hno as i64, k as i64, in_build);
    // machinery self-test only: die like a stack overflow would, at a chosen operation
    if let Ok(at) = std::env::var("VERIF_TEST_CRASH_AT") {
        if at == format!("{hno}:{k}") && in_build {
            PROGRESS_FILE.lock().unwrap().as_ref().map(|file| {
                use std::os::unix::fs::FileExt;
                let _ = file.write_at(format!("{:>12} {:>12}\n", hno, k).as_bytes(), 0);
            });
            std::process::abort();
        }
    }
    let mut f = PROGRESS_FILE.lock().unwrap();
    if f.is_none() {
        if let Ok(p) = std::env::var("VERIF_PROGRESS_FILE") {
            *f = std::fs::OpenOptions::new().create(true).write(true).truncate(true).open(p).ok();
        }
    }
    if let Some(file) = f.as_ref() {
        use std::os::unix::fs::FileExt;
        let line = format!("{:>12} {:>12}\n", hno, k);
        let _ = file.write_at(line.as_bytes(), 0);
    }
}

pub struct BuildOutcome {
    pub res: Value,
    /// class of the rolled-back first attempt (retry_same_builder only)
    pub first: Option<Value>,
    pub polls: u64,
    /// (MainStep announced through the progress callback, polls counted so far)
    pub steps: Vec<(String, u64)>,
}

/// run one build with cancellation / watchdog instrumentation
pub fn do_build(wtxn: &mut RwTxn, db: RawDb, idx: u16, metric: Metric, dim: usize, o: &BuildOpts, max_polls: u64) -> BuildOutcome {
    do_build_with(&mut WriterPool::new(false), wtxn, db, idx, metric, dim, o, max_polls)
}

#[allow(clippy::too_many_arguments)]
pub fn do_build_with(pool: &mut WriterPool, wtxn: &mut RwTxn, db: RawDb, idx: u16, metric: Metric, dim: usize, o: &BuildOpts, max_polls: u64) -> BuildOutcome {
    do_build_env(pool, None, wtxn, db, idx, metric, dim, o, max_polls)
}

/// with `env` and `o.retry_same_builder`: first attempt (with the fault) in a nested transaction that is rolled back,
/// then the same builder, fault withdrawn, on the caller's transaction; the outcome is the second attempt's and
/// `first` holds the class of the first one
#[allow(clippy::too_many_arguments)]
pub fn do_build_env(pool: &mut WriterPool, env: Option<&Env>, wtxn: &mut RwTxn, db: RawDb, idx: u16, metric: Metric, dim: usize, o: &BuildOpts, max_polls: u64) -> BuildOutcome {
    let retry = o.retry_same_builder && env.is_some() && o.cancel_at.is_some();
    let fault_on = std::sync::atomic::AtomicBool::new(true);
    let first: std::sync::Mutex<Option<Value>> = std::sync::Mutex::new(None);
    let polls = AtomicU64::new(0);
    let steps: std::sync::Mutex<Vec<(String, u64)>> = std::sync::Mutex::new(Vec::new());
    let watchdog = std::sync::atomic::AtomicBool::new(false);
    let cancel_at = o.cancel_at;
    let r = catch_unwind(AssertUnwindSafe(|| {
        with_metric!(metric, D, {
            pool.with::<D, _>(metric, db, idx, dim, |w| {
            if let Some(t) = &o.tmpdir {
                w.set_tmpdir(t);
            }
            let mut rng = StdRng::seed_from_u64(o.seed);
            let mut b = w.builder(&mut rng);
            if let Some(n) = o.n_trees {
                b.n_trees(n);
            }
            if let Some(n) = o.split_after {
                b.split_after(n);
            }
            if let Some(n) = o.mem {
                b.available_memory(n);
            }
            b.progress(|p| {
                steps.lock().unwrap().push((format!("{:?}", p.main), polls.load(Ordering::SeqCst)));
            });
            b.cancel(|| {
                let n = polls.fetch_add(1, Ordering::SeqCst);
                if n >= max_polls {
                    watchdog.store(true, Ordering::SeqCst);
                    return true;
                }
                match cancel_at {
                    Some(c) => fault_on.load(Ordering::SeqCst) && n >= c,
                    None => false,
                }
            });
            if retry {
                let mut child = env.unwrap().nested_write_txn(wtxn).unwrap();
                let r1 = catch_unwind(AssertUnwindSafe(|| b.build(&mut child)));
                child.abort();
                *first.lock().unwrap() = Some(match r1 {
                    Ok(Ok(())) => json!("Ok"),
                    Ok(Err(e)) => err_class(&e)["c"].clone(),
                    Err(_) => json!("Panic"),
                });
                fault_on.store(false, Ordering::SeqCst);
                steps.lock().unwrap().clear();
            }
            b.build(wtxn)
            })
        })
    }));
    let polls_n = polls.load(Ordering::SeqCst);
    let res = match r {
        Ok(Ok(())) => json!({"c":"Ok"}),
        Ok(Err(e)) => {
            if watchdog.load(Ordering::SeqCst) {
                json!({"c":"NoProgress"})
            } else {
                err_class(&e)
            }
        }
        Err(p) => json!({"c":"Panic","msg":panic_msg(p)}),
    };
    let steps = steps.into_inner().unwrap();
    BuildOutcome { res, polls: polls_n, steps, first: first.into_inner().unwrap() }
}

/// Executes the history; appends the events to `out`. Runs on the calling thread (callers that
/// want an n-thread rayon pool call this from inside `pool.install`).
pub fn run_history(h: &History, hno: usize, cfg: &RunCfg, out: &mut Vec<Value>) -> RunStats {
    run_history_with(h, hno, cfg, out, &[], &mut |_, _, _, _| Vec::new())
}

/// `preload` runs after the environment is created and the Reset event is emitted; it may fill the
/// database (golden fixtures), emit its own events, and returns the dump the history starts from.
pub fn run_history_with(
    h: &History,
    hno: usize,
    cfg: &RunCfg,
    out: &mut Vec<Value>,
    extra_ids: &[u32],
    preload: &mut dyn FnMut(&Env, RawDb, &mut Ctx, &mut Vec<Value>) -> RawDump,
) -> RunStats {
    let mut stats = RunStats::default();
    let dir = tempfile::tempdir_in(work_tmp()).unwrap();
    let env = open_env(dir.path(), h.map_size);
    let db: RawDb = {
        let mut w = env.write_txn().unwrap();
        let db = env.create_database::<Bytes, Bytes>(&mut w, None).unwrap();
        w.commit().unwrap();
        db
    };
    let mut ctx = Ctx::new(h, extra_ids);
    let mut metric: BTreeMap<u16, Metric> = h.indexes.iter().map(|d| (d.idx, d.metric)).collect();
    let dims: BTreeMap<u16, usize> = h.indexes.iter().map(|d| (d.idx, d.dim)).collect();
    let mut committed_metric = metric.clone();

    out.push(json!({
        "ev":"Reset","h":hno as i64,
        "idxs": ctx.idxs.iter().map(|i| json!({"real": *i as i64, "metric": metric[i].short(), "dim": dims[i] as i64})).collect::<Vec<_>>(),
        "ids": ctx.ids.iter().map(|i| i.to_string()).collect::<Vec<_>>(),
        "nids": ctx.ids.len() as i64,
        "label": h.label,
        "mapfull": h.faults.iter().any(|f| f == "mapfull"),
        "persistent_writers": hno % 2 == 1,
    }));

    let mut wtxn: Option<RwTxn> = None;
    let mut before: RawDump = preload(&env, db, &mut ctx, out);
    // half of the histories keep their writers alive across operations, commits and aborts
    let uses_tmpdir = h.ops.iter().any(|o| matches!(o, Op::Build { o, .. } if o.tmpdir.is_some()));
    let mut pool = WriterPool::new(!uses_tmpdir && (hno % 2 == 1 || h.label.starts_with("store") && hno % 3 != 0));
    // after an out-of-space error LMDB refuses every further use of the transaction (BadTxn):
    // the remaining operations of that transaction are skipped and a commit becomes an abort
    let mut dead = false;
    let mut last_st: BTreeMap<u16, Value> = BTreeMap::new();

    let all_states = |ctx: &mut Ctx, d: &RawDump, metric: &BTreeMap<u16, Metric>, sides: bool| -> Vec<Value> {
        let dec = decode::decode_dump(d, &|i| metric.get(&i).copied());
        let empty = IndexRaw::default();
        ctx.idxs.clone().iter().map(|i| project_index(ctx, dec.get(i).unwrap_or(&empty), metric[i], dims[i], sides)).collect()
    };
    let foreign = |ctx: &Ctx, d: &RawDump| -> i64 {
        d.iter().filter(|(k, _)| k.len() < 2 || !ctx.idxs.contains(&u16::from_be_bytes([k[0], k[1]]))).count() as i64
    };

    for (k, op) in h.ops.iter().enumerate() {
        if wtxn.is_none() {
            if let Op::Build { o, .. } = op {
                if let Some(free) = o.map_free_pages {
                    // no transaction is open: give the environment exactly `free` pages beyond what it uses
                    let used = env.info().last_page_number + 1;
                    unsafe { env.resize((used + free) * 4096).unwrap() };
                }
            }
            wtxn = Some(env.write_txn().unwrap());
        }
        if dead && !matches!(op, Op::Commit | Op::Abort) {
            continue;
        }
        mark_progress(hno, k, true);
        match op {
            Op::Commit | Op::Abort => {
                let w = wtxn.take().unwrap();
                let mut is_commit = matches!(op, Op::Commit) && !dead;
                dead = false;
                last_st.clear();
                let res = if is_commit {
                    match w.commit() {
                        Ok(()) => {
                            committed_metric = metric.clone();
                            // page usage after each commit (the out-of-space driver enumerates map sizes around it)
                            PAGES_AFTER_COMMIT.lock().unwrap().push(env.info().last_page_number as u64);
                            json!({"c":"Ok"})
                        }
                        Err(e) if h.faults.iter().any(|f| f == "mapfull") && format!("{e}").contains("MAP_FULL") => {
                            // LMDB itself ran out of space while committing (the commit needs pages of its own) under a
                            // deliberately small map: the transaction is rolled back, which is what an abort is
                            is_commit = false;
                            metric = committed_metric.clone();
                            json!({"c":"Ok","commit_ran_out_of_space":true})
                        }
                        Err(e) => json!({"c":"Heed","msg":format!("{e}")}),
                    }
                } else {
                    w.abort();
                    metric = committed_metric.clone();
                    json!({"c":"Ok"})
                };
                let rtxn = env.read_txn().unwrap();
                let after = dump(db, &rtxn);
                let sts = all_states(&mut ctx, &after, &metric, false);
                let obs: Vec<Value> = if cfg.observe {
                    ctx.idxs.clone().iter().map(|i| observe(&mut ctx, &rtxn, db, *i, metric[i], dims[i])).collect()
                } else {
                    Vec::new()
                };
                out.push(json!({"ev": if is_commit {"Commit"} else {"Abort"}, "h":hno as i64, "k":k as i64, "res":res,
                    "all": sts, "obs_all": obs, "foreign": foreign(&ctx, &after)}));
                before = after;
                stats.events += 1;
                continue;
            }
            _ => {}
        }
        let idx = op.idx().unwrap();
        let m = metric[&idx];
        let dim = dims[&idx];
        let w = wtxn.as_mut().unwrap();
        let mut ev = json!({"h":hno as i64,"k":k as i64,"i":ctx.irank(idx)});
        let mut with_sides = false;
        match op {
            Op::Add { id, v, .. } | Op::Append { id, v, .. } => {
                let is_app = matches!(op, Op::Append { .. });
                let vf = unbits(v);
                let r = catch_unwind(AssertUnwindSafe(|| {
                    with_metric!(m, D, {
                        pool.with::<D, _>(m, db, idx, dim, |wr| if is_app { wr.append_item(w, *id, &vf) } else { wr.add_item(w, *id, &vf) })
                    })
                }));
                let res = match r {
                    Ok(Ok(())) => json!({"c":"Ok"}),
                    Ok(Err(e)) => err_class(&e),
                    Err(p) => json!({"c":"Panic","msg":panic_msg(p)}),
                };
                let tok = if vf.len() == dim { ctx.tok(&represent(m, &vf)) } else { 0 };
                // is the key above every key of the database (all indexes)? computed on raw bytes.
                let key = decode::encode_key(idx, decode::KIND_ITEM, *id);
                let above_all = before.iter().all(|(k, _)| k.as_slice() < &key[..]);
                ev["ev"] = json!(if is_app { "Append" } else { "Add" });
                ev["id"] = json!(ctx.rank(*id));
                ev["tok"] = json!(tok);
                ev["len"] = json!(vf.len() as i64);
                ev["above_all"] = json!(above_all);
                ev["res"] = res;
            }
            Op::Del { id, .. } => {
                let r = catch_unwind(AssertUnwindSafe(|| {
                    with_metric!(m, D, { pool.with::<D, _>(m, db, idx, dim, |wr| wr.del_item(w, *id)) })
                }));
                ev["ev"] = json!("Del");
                ev["id"] = json!(ctx.rank(*id));
                ev["res"] = match r {
                    Ok(Ok(b)) => json!({"c":"Ok","ret":b}),
                    Ok(Err(e)) => err_class(&e),
                    Err(p) => json!({"c":"Panic","msg":panic_msg(p)}),
                };
            }
            Op::AddMany { items, .. } => {
                let mut res = json!({"c":"Ok"});
                let mut toks = Vec::new();
                for (id, v) in items {
                    let vf = unbits(v);
                    let r = catch_unwind(AssertUnwindSafe(|| {
                        with_metric!(m, D, { pool.with::<D, _>(m, db, idx, dim, |wr| wr.add_item(w, *id, &vf)) })
                    }));
                    match r {
                        Ok(Ok(())) => toks.push(json!([ctx.rank(*id), ctx.tok(&represent(m, &vf))])),
                        Ok(Err(e)) => {
                            res = err_class(&e);
                            break;
                        }
                        Err(p) => {
                            res = json!({"c":"Panic","msg":panic_msg(p)});
                            break;
                        }
                    }
                }
                ev["ev"] = json!("AddMany");
                ev["items"] = json!(toks);
                ev["res"] = res;
            }
            Op::DelMany { ids, .. } => {
                let mut res = json!({"c":"Ok"});
                let mut rets = Vec::new();
                for id in ids {
                    let r = catch_unwind(AssertUnwindSafe(|| {
                        with_metric!(m, D, { pool.with::<D, _>(m, db, idx, dim, |wr| wr.del_item(w, *id)) })
                    }));
                    match r {
                        Ok(Ok(b)) => rets.push(json!([ctx.rank(*id), b])),
                        Ok(Err(e)) => {
                            res = err_class(&e);
                            break;
                        }
                        Err(p) => {
                            res = json!({"c":"Panic","msg":panic_msg(p)});
                            break;
                        }
                    }
                }
                ev["ev"] = json!("DelMany");
                ev["dels"] = json!(rets);
                ev["res"] = res;
            }
            Op::Clear { .. } => {
                let r = catch_unwind(AssertUnwindSafe(|| {
                    with_metric!(m, D, { pool.with::<D, _>(m, db, idx, dim, |wr| wr.clear(w)) })
                }));
                ev["ev"] = json!("Clear");
                ev["res"] = match r {
                    Ok(Ok(())) => json!({"c":"Ok"}),
                    Ok(Err(e)) => err_class(&e),
                    Err(p) => json!({"c":"Panic","msg":panic_msg(p)}),
                };
            }
            Op::ChangeMetric { to, .. } => {
                let to = *to;
                // requantisation table over the tokens currently stored, from the harness's own oracle
                let dec = decode::decode_dump(&before, &|i| metric.get(&i).copied());
                let mut requant = Vec::new();
                if let Some(ir) = dec.get(&idx) {
                    for leaf in ir.leaves.values() {
                        if let Ok(mut v) = decode::decode_vector(m, &leaf.vector) {
                            v.truncate(dim);
                            let old = ctx.tok(&v);
                            let new = ctx.tok(&represent(to, &v));
                            requant.push(json!([old, new]));
                        }
                    }
                }
                let r = catch_unwind(AssertUnwindSafe(|| {
                    with_metric!(m, D, {
                        with_metric!(to, ND, {
                            let old = pool.take::<D>(m, db, idx, dim);
                            old.prepare_changing_distance::<ND>(w).map(|nw| pool.put::<ND>(to, idx, nw))
                        })
                    })
                }));
                ev["ev"] = json!("ChangeMetric");
                ev["to"] = json!(to.short());
                ev["requant"] = json!(requant);
                ev["res"] = match r {
                    Ok(Ok(())) => {
                        metric.insert(idx, to);
                        json!({"c":"Ok"})
                    }
                    Ok(Err(e)) => err_class(&e),
                    Err(p) => json!({"c":"Panic","msg":panic_msg(p)}),
                };
            }
            Op::Build { o, .. } => {
                // "$TMP/..." temp dirs live inside the history's scratch directory
                let mut o = o.clone();
                if let Some(t) = &o.tmpdir {
                    if t.starts_with("$TMP") {
                        let real = t.replace("$TMP", dir.path().to_str().unwrap());
                        if real.ends_with("afile") && !std::path::Path::new(&real).exists() {
                            std::fs::write(&real, b"not a directory").unwrap();
                        }
                        if real.ends_with("adir") {
                            std::fs::create_dir_all(&real).unwrap();
                        }
                        o.tmpdir = Some(real);
                    }
                }
                let o = &o;
                let fds_before = count_fds();
                let tmp_before = o.tmpdir.as_ref().map(|t| count_dir(t)).unwrap_or(-1);
                mark_progress(hno, k, true);
                // hook H2: tree nodes and roots after each phase of the build (small histories only)
                let phases: std::rc::Rc<std::cell::RefCell<Vec<(&'static str, Vec<u32>, RawDump)>>> = Default::default();
                if h.sides && !o.retry_same_builder {
                    let sink = phases.clone();
                    arroy::verif::set_phase_sink(Some(Box::new(move |name, rtxn, index, roots| {
                        let pfx = [index.to_be_bytes()[0], index.to_be_bytes()[1], decode::KIND_TREE];
                        let d: RawDump = db.prefix_iter(rtxn, &pfx).unwrap().map(|r| r.unwrap()).map(|(k, v)| (k.to_vec(), v.to_vec())).collect();
                        sink.borrow_mut().push((name, roots.to_vec(), d));
                    })));
                }
                let bo = do_build_env(&mut pool, Some(&env), w, db, idx, m, dim, o, h.max_polls.min(cfg.max_polls));
                mark_progress(hno, k, false);
                arroy::verif::set_phase_sink(None);
                if h.sides && !o.retry_same_builder && bo.res["c"] == "Ok" {
                    let ph: Vec<Value> = phases.borrow().iter().map(|(name, roots, d)| {
                        let dec = decode::decode_dump(d, &|_| Some(m));
                        let empty = IndexRaw::default();
                        let st = project_index(&mut ctx, dec.get(&idx).unwrap_or(&empty), m, dim, false);
                        json!({"name": name, "roots": roots.iter().map(|r| *r as i64).collect::<Vec<_>>(), "nodes": st["nodes"]})
                    }).collect();
                    if !ph.is_empty() {
                        ev["phases"] = json!(ph);
                    }
                }
                let fds_after = count_fds();
                let tmp_after = o.tmpdir.as_ref().map(|t| count_dir(t)).unwrap_or(-1);
                ev["fd_delta"] = json!(fds_after - fds_before);
                ev["tmp_delta"] = json!(tmp_after - tmp_before);
                ev["tmp_usable"] = json!(o.tmpdir.as_ref().map(|t| std::path::Path::new(t).is_dir()).unwrap_or(true));
                ev["ev"] = json!("Build");
                ev["args"] = json!({"n_trees": o.n_trees.map(|x| x as i64).unwrap_or(0), "split_after": o.split_after.map(|x| x as i64).unwrap_or(0),
                    "mem": o.mem.map(|x| x.min(i32::MAX as usize) as i64).unwrap_or(-1), "threads": rayon::current_num_threads() as i64,
                    "cancel_at": if bo.first.is_some() { -1 } else { o.cancel_at.map(|x| x.min(i32::MAX as u64) as i64).unwrap_or(-1) }});
                if let Some(f) = &bo.first {
                    ev["retry_first"] = f.clone();
                }
                ev["polls"] = json!(bo.polls.min(i32::MAX as u64) as i64);
                ev["steps"] = json!(bo.steps.iter().map(|(s, n)| json!([s, (*n).min(i32::MAX as u64) as i64])).collect::<Vec<_>>());
                if bo.res["c"] != "Ok" {
                    // a failed build leaves a half-built forest in the transaction: the caller can only roll back
                    // (C10); the rest of this transaction is skipped and its commit becomes an abort
                    dead = true;
                }
                if bo.res["c"] == "Ok" {
                    stats.builds_ok += 1;
                    with_sides = cfg.sides && h.sides;
                } else {
                    stats.builds_err += 1;
                    if bo.res["c"] == "Panic" {
                        stats.panics += 1;
                    }
                }
                ev["res"] = bo.res;
            }
            Op::Search { seed, .. } => {
                ev["ev"] = json!("Search");
                with_sides = cfg.sides && h.sides;
                let m = metric[&idx];
                ev["q"] = search::search_event(&mut ctx, w, db, idx, m, dim, *seed);
            }
            Op::Commit | Op::Abort => unreachable!(),
        }
        if ev["res"]["c"] == "MapFull" || ev["res"]["c"] == "Heed" {
            // the transaction is unusable from here on: no dump, no observation
            dead = true;
            let empty = IndexRaw::default();
            ev["st"] = last_st.get(&idx).cloned().unwrap_or_else(|| project_index(&mut ctx, &empty, metric[&idx], dim, false));
            ev["same"] = json!(true);
            ev["foreign"] = json!(0);
            ev["dead"] = json!(true);
            out.push(ev);
            stats.events += 1;
            continue;
        }
        let w = wtxn.as_ref().unwrap();
        let after = dump(db, w);
        // byte-for-byte comparison of every other index (and of keys outside the declared indexes)
        let pfx = idx.to_be_bytes();
        let other = |d: &RawDump| -> Vec<(Vec<u8>, Vec<u8>)> { d.iter().filter(|(k, _)| k.len() < 2 || k[0..2] != pfx).cloned().collect() };
        let same = other(&before) == other(&after);
        let m_after = metric[&idx];
        let dec = decode::decode_dump(&after, &|i| metric.get(&i).copied());
        let empty = IndexRaw::default();
        let st = project_index(&mut ctx, dec.get(&idx).unwrap_or(&empty), m_after, dim, with_sides);
        if with_sides && matches!(op, Op::Build { .. }) {
            let nsplits = st["nodes"].as_array().unwrap().iter().filter(|n| n["tag"] == "S").count();
            if nsplits > 0 {
                stats.nontrivial_builds += 1;
            }
            stats.state_hashes.insert(hash_value(&st["nodes"]));
        }
        if matches!(op, Op::Build { .. }) {
            ev["sides"] = json!(with_sides);
        }
        if matches!(op, Op::Search { .. }) {
            ev["q"]["sides"] = json!(with_sides);
        }
        last_st.insert(idx, st.clone());
        ev["st"] = st;
        ev["same"] = json!(same);
        ev["foreign"] = json!(foreign(&ctx, &after));
        if !same {
            ev["all"] = json!(all_states(&mut ctx, &after, &metric, false));
        }
        if cfg.observe && !matches!(op, Op::Search { .. }) {
            ev["obs"] = observe_with(&mut ctx, w, db, idx, m_after, dim, dec.get(&idx));
        }
        out.push(ev);
        stats.events += 1;
        before = after;
    }
    if let Some(w) = wtxn.take() {
        w.abort();
    }
    drop(wtxn);
    stats
}
